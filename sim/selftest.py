"""Self-tests of the machinery: determinism of every check's cases.

``python -m sim.cli selftest determinism --n K`` runs the first K quick cases of every check
  (1) twice in forked workers at two different worker counts, and
  (2) once more in a FRESH interpreter under another PYTHONHASHSEED,
and diffs the outcome digests (which cover the seam traces / returned results / verdicts).
A mismatch is a harness bug and blocks everything else.
"""

from __future__ import annotations

import importlib
import json
import os
import shutil
import subprocess
import sys

from . import ROOT
from . import harness

CHECKS = "c01 c03 c05 c06 c07 c08 c09 c10 c11 c12 c13 c14 c15 c16 c17 c18 c19 c20".split()
SLOW = {"c03": 2, "c20": 4, "c15": 6, "c13": 4, "c01": 4}


def case_digest(arg):
    mod = importlib.import_module(arg["module"])
    wd = harness.shm_dir()
    try:
        out = mod.run_case(arg["case"], wd)
    finally:
        shutil.rmtree(wd, ignore_errors=True)
    return {"digest": out.get("digest"), "violations": [v["oracle"] for v in out.get("violations", [])]}


def fresh(modname, case, hashseed):
    env = dict(os.environ)
    env["PYTHONHASHSEED"] = str(hashseed)
    env["PYTHONPATH"] = ROOT + os.pathsep + env.get("PYTHONPATH", "")
    p = subprocess.run([sys.executable, "-m", "sim.worker", "sim.selftest", "case_digest"],
                       input=json.dumps({"module": modname, "case": case}), capture_output=True, text=True, env=env, cwd=ROOT, timeout=900)
    for line in p.stdout.splitlines()[::-1]:
        if line.startswith("@@RESULT@@"):
            return json.loads(line[len("@@RESULT@@"):])
    raise RuntimeError(f"fresh interpreter failed rc={p.returncode}: {p.stderr[-600:]}")


def main(what="determinism", n=12, seed=None):
    seed = int(os.environ.get("VERIF_SEED", "0") or 0) if seed is None else seed
    only = os.environ.get("VERIF_SELFTEST_CHECKS")
    checks = only.split() if only else CHECKS
    bad = 0
    total = 0
    for name in checks:
        modname = f"sim.checks.{name}"
        mod = importlib.import_module(modname)
        k = min(n, SLOW.get(name, n))
        cases = mod.gen_cases(seed, "quick")
        step = max(1, len(cases) // k)
        cases = cases[::step][:k]
        a, _ = harness.run_cases(modname, cases, workers=16)
        b, _ = harness.run_cases(modname, cases, workers=5)
        da = [o.get("digest") for o in a]
        db = [o.get("digest") for o in b]
        errs = [o.get("harness_error") for o in a + b if o.get("harness_error")]
        n_fresh = 0
        fresh_bad = 0
        for i, c in list(enumerate(cases))[: max(1, k // 3)]:
            f = fresh(modname, c, hashseed=1000 + 17 * i)
            n_fresh += 1
            if f["digest"] != da[i]:
                fresh_bad += 1
        mism = sum(1 for x, y in zip(da, db) if x != y)
        total += len(cases)
        status = "ok" if not mism and not fresh_bad and not errs else "MISMATCH"
        if status != "ok":
            bad += 1
        print(f"selftest determinism {name}: cases={len(cases)} twice-at-16-and-5-workers mismatches={mism} fresh-interpreter runs={n_fresh} "
              f"mismatches={fresh_bad} harness_errors={len(errs)} -> {status}", flush=True)
        for e in errs[:2]:
            print("   ", e)
    print(f"selftest determinism: {total} cases, {bad} checks with mismatches")
    return 0 if bad == 0 else 2
