"""Executable reference model: the simulator's own formulas (float64 numpy).

Shares no code with aspire.  Used by the history / seam oracles.
"""

from __future__ import annotations

import math

import numpy as np
from scipy import special


def lse(a):
    a = np.asarray(a, dtype=np.float64)
    m = np.max(a)
    if not np.isfinite(m):
        return float(m)
    return float(m + np.log(np.sum(np.exp(a - m))))


def ess(logw):
    logw = np.asarray(logw, dtype=np.float64)
    return float(np.exp(2.0 * lse(logw) - lse(2.0 * logw)))


def incr_logw(ll, lp, lq, b0, b1):
    """Incremental log-weights for the move b0 -> b1 along q^(1-b) (L pi)^b."""
    ll, lp, lq = (np.asarray(v, dtype=np.float64) for v in (ll, lp, lq))
    return (b1 - b0) * (ll + lp - lq)


def log_ratio(w):
    return lse(w) - math.log(len(w))


def log_ratio_var(w):
    w = np.asarray(w, dtype=np.float64)
    u = np.exp(w - np.max(w))
    m = np.mean(u)
    return float(np.var(u) / (len(w) * m * m))


def norm_weights(w):
    w = np.asarray(w, dtype=np.float64)
    return np.exp(w - lse(w))


def eff(ll, lp, lq, b0, b1):
    return ess(incr_logw(ll, lp, lq, b0, b1)) / len(ll)


def target_eff(te, rate, beta):
    if isinstance(te, (list, tuple)):
        return te[0] + (te[1] - te[0]) * (beta**rate)
    return float(te)


def beta_star(ll, lp, lq, b0, target, iters=60):
    """sup{b in [b0, 1] : ESS(b0 -> b)/N >= target}; ESS is non-increasing in b,
    so this is well defined.  Own bisection to ~1e-16."""
    if eff(ll, lp, lq, b0, 1.0) >= target:
        return 1.0
    lo, hi = b0, 1.0
    for _ in range(iters):
        mid = 0.5 * (lo + hi)
        if eff(ll, lp, lq, b0, mid) >= target:
            lo = mid
        else:
            hi = mid
    return lo


# ----------------------------------------------------------------------------
# closed-form preconditioning transforms (inverse direction: z -> x, log|dx/dz|)
# ----------------------------------------------------------------------------
def periodic_wrap(x, lo, hi):
    return lo + np.mod(x - lo, hi - lo)


def logit_inverse(y, lo, hi):
    """y in R -> x in (lo, hi), with log|dx/dy| per dimension summed."""
    s = special.expit(y)
    x = lo + (hi - lo) * s
    # log s + log(1-s), stable
    lj = -np.logaddexp(0.0, -y) - np.logaddexp(0.0, y) + np.log(hi - lo)
    return x, lj


def logit_forward(x, lo, hi, eps=1e-6):
    u = np.clip((x - lo) / (hi - lo), eps, 1 - eps)
    return np.log(u) - np.log1p(-u)


def probit_inverse(y, lo, hi):
    s = special.ndtr(y)
    x = lo + (hi - lo) * s
    lj = -0.5 * (math.log(2 * math.pi) + y * y) + np.log(hi - lo)
    return x, lj


def probit_forward(x, lo, hi, eps=1e-6):
    u = np.clip((x - lo) / (hi - lo), eps, 1 - eps)
    return special.ndtri(u)


class CompositeModel:
    """Own model of aspire's preconditioning composite:
    forward = periodic wrap -> bounded (logit|probit) -> affine whitening."""

    def __init__(self, lower, upper, periodic_mask, bounded_mask, bounded, affine, eps=1e-6):
        self.lo = np.asarray(lower, dtype=np.float64)
        self.hi = np.asarray(upper, dtype=np.float64)
        self.pm = np.asarray(periodic_mask, dtype=bool)
        self.bm = np.asarray(bounded_mask, dtype=bool)
        self.bounded = bounded
        self.affine = affine
        self.eps = eps
        self.mean = None
        self.std = None

    def pre_affine_forward(self, x):
        y = np.array(x, dtype=np.float64, copy=True)
        if self.pm.any():
            y[:, self.pm] = periodic_wrap(y[:, self.pm], self.lo[self.pm], self.hi[self.pm])
        if self.bm.any():
            f = logit_forward if self.bounded == "logit" else probit_forward
            y[:, self.bm] = f(y[:, self.bm], self.lo[self.bm], self.hi[self.bm], self.eps)
        return y

    def fit(self, x, z_observed=None, well_conditioned_below=None):
        """Fit the whitening.  Any non-degenerate per-dimension affine map is a
        valid whitening (numpy uses the population std, torch the sample std),
        so when the image ``z_observed`` of the fitting data is known the
        affine is *identified* from the (y, z) pairs by least squares; the
        caller checks that the identified map reproduces z_observed."""
        y = self.pre_affine_forward(x)
        if self.affine:
            if z_observed is not None and len(y) >= 2:
                z = np.asarray(z_observed, dtype=np.float64)
                self.mean = np.empty(y.shape[1])
                self.std = np.empty(y.shape[1])
                for j in range(y.shape[1]):
                    use = np.ones(len(y), bool)
                    if well_conditioned_below is not None and self.bm[j]:
                        # next to a bound the bounded map amplifies the rounding of x (float32: by 1/(u(1-u))): identify
                        # the affine from the rows where y is well determined
                        use = np.abs(y[:, j]) < well_conditioned_below
                        if use.sum() < 3:
                            use = np.ones(len(y), bool)
                    zj, yj = z[use, j], y[use, j]
                    zc = zj - zj.mean()
                    den = float(np.dot(zc, zc))
                    slope = float(np.dot(zc, yj - yj.mean()) / den) if den > 0 else 1.0
                    self.std[j] = slope
                    self.mean[j] = yj.mean() - slope * zj.mean()
            else:
                self.mean = y.mean(axis=0)
                self.std = y.std(axis=0)
            return (y - self.mean) / self.std
        return y

    def inverse(self, z):
        z = np.asarray(z, dtype=np.float64)
        lj = np.zeros(len(z))
        y = np.array(z, copy=True)
        if self.affine:
            y = y * self.std + self.mean
            lj = lj + np.sum(np.log(np.abs(self.std)))
        if self.bm.any():
            f = logit_inverse if self.bounded == "logit" else probit_inverse
            xb, ljb = f(y[:, self.bm], self.lo[self.bm], self.hi[self.bm])
            y[:, self.bm] = xb
            lj = lj + ljb.sum(axis=1)
        if self.pm.any():
            y[:, self.pm] = periodic_wrap(y[:, self.pm], self.lo[self.pm], self.hi[self.pm])
        return y, lj


# ----------------------------------------------------------------------------
# schedule arithmetic
# ----------------------------------------------------------------------------
def expected_checkpoint_iterations(n_iter: int, every: int | None):
    """Iterations at which a run of ``n_iter`` iterations must checkpoint, in
    order: every multiple of the cadence, plus once at the end (forced)."""
    out = []
    if every is not None and every > 0:
        out = [i for i in range(1, n_iter + 1) if i % every == 0]
    out.append(n_iter)
    return out
