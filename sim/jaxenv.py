"""jax-traceable user model + kernel seam for BlackJAXSMC (which evaluates the user's callables under vmap / scan).

The numpy ``SimLikelihood`` / ``SimPrior`` of ``env.py`` cannot be traced, so this is the same closed-form ``Target`` written
with ``jax.numpy``.  Calls with concrete arrays are recorded (model seam); traced calls are only counted.
"""

from __future__ import annotations

import math

import numpy as np


class JaxModel:
    def __init__(self, target):
        import jax.numpy as jnp

        self.t = target
        self.jnp = jnp
        self.lo = jnp.asarray(np.asarray(target.lower, dtype=np.float64))
        self.hi = jnp.asarray(np.asarray(target.upper, dtype=np.float64))
        self.concrete = []  # (kind, x) for calls made with concrete arrays, in order
        self.n_traced = {"like": 0, "prior": 0}
        self.n_points = {"like": 0, "prior": 0}
        self.n_concrete_like_calls = 0
        self.crash_at_concrete_like = None  # crash seam: raise at this (0-based) eager likelihood call
        # C17 at this model seam: every likelihood call must come with the log-prior of exactly those points
        self.c17_failures = []  # dicts (why, traced?)
        self.c17_checked = {"concrete_calls": 0, "traced_calls": 0, "traced_points": 0}

    def _own_prior(self, x):
        """numpy twin of log_prior (box and optional hole), independent of what the caller attached"""
        x = np.asarray(x, dtype=np.float64).reshape(-1, self.t.dims)
        lo, hi = np.asarray(self.t.lower, dtype=np.float64), np.asarray(self.t.upper, dtype=np.float64)
        inside = np.all((x >= lo) & (x <= hi), axis=-1)
        if self.t.prior_hole is not None:
            d, a, b = self.t.prior_hole
            inside = inside & ~((x[:, d] > a) & (x[:, d] < b))
        return np.where(inside, -np.sum(np.log(hi - lo)), -np.inf)

    def _check_pair(self, x, lp, traced=True):
        want = self._own_prior(x)
        got = np.asarray(lp, dtype=np.float64).reshape(-1)
        if traced:
            self.c17_checked["traced_points"] += len(want)
        ok = got.shape == want.shape and np.all((got == want) | (np.isclose(got, want, rtol=1e-12, atol=1e-12)))
        if not ok and len(self.c17_failures) < 20:
            self.c17_failures.append({"why": "attached log_prior is not the prior of these points", "traced": bool(traced),
                                      "x": np.asarray(x, dtype=np.float64).reshape(-1, self.t.dims)[:2].tolist(),
                                      "attached": got[:2].tolist(), "prior": want[:2].tolist()})

    def _c17(self, samples, x):
        import jax

        lp = getattr(samples, "log_prior", None)
        traced = isinstance(x, jax.core.Tracer)
        self.c17_checked["traced_calls" if traced else "concrete_calls"] += 1
        if lp is None:
            if len(self.c17_failures) < 20:
                self.c17_failures.append({"why": "no log_prior attached to the sample set handed to the likelihood", "traced": bool(traced)})
            return
        if traced or isinstance(lp, jax.core.Tracer):
            jax.debug.callback(self._check_pair, x, lp)  # values exist only when the traced program runs
        else:
            self._check_pair(x, lp, traced=False)

    def _note(self, kind, x):
        import jax

        if isinstance(x, jax.core.Tracer):
            self.n_traced[kind] += 1
        else:
            a = np.asarray(x, dtype=np.float64)
            if kind == "like":
                k = self.n_concrete_like_calls
                self.n_concrete_like_calls += 1
                if self.crash_at_concrete_like is not None and k == self.crash_at_concrete_like:
                    from .core import SimModelError

                    raise SimModelError(f"simulated model failure at eager likelihood call {k}")
            self.concrete.append((kind, a.reshape(-1, self.t.dims)))
            self.n_points[kind] += len(a.reshape(-1, self.t.dims))

    def log_prior(self, samples, map_fn=None):
        jnp = self.jnp
        x = samples.x
        self._note("prior", x)
        inside = jnp.all((x >= self.lo) & (x <= self.hi), axis=-1)
        if self.t.prior_hole is not None:
            d, a, b = self.t.prior_hole
            inside = inside & ~((x[..., d] > a) & (x[..., d] < b))
        return jnp.where(inside, -jnp.sum(jnp.log(self.hi - self.lo)), -jnp.inf)

    def log_likelihood(self, samples, map_fn=None):
        jnp = self.jnp
        t = self.t
        x = samples.x
        self._note("like", x)
        self._c17(samples, x)
        out = jnp.zeros(x.shape[:-1], dtype=x.dtype) + float(t.c)
        for i in range(t.dims):
            xi = x[..., i]
            k = t.factor[i]
            if k == "gauss":
                out = out - 0.5 * ((xi - t.mu[i]) / t.sigma[i]) ** 2
            elif k == "vm":
                out = out + t.kappa[i] * jnp.cos(xi - t.mu[i])
            elif k == "bimodal":
                a = -0.5 * ((xi - t.mu[i] - t.sep[i]) / t.sigma[i]) ** 2
                b = -0.5 * ((xi - t.mu[i] + t.sep[i]) / t.sigma[i]) ** 2
                out = out + jnp.logaddexp(a, b) + math.log(0.5)
            else:
                raise ValueError(k)
        if t.like_cut is not None:
            d, thr = t.like_cut
            out = jnp.where(x[..., d] < thr, -jnp.inf, out)
        if t.nan_region is not None:
            d, a, b = t.nan_region
            out = jnp.where((x[..., d] > a) & (x[..., d] < b), jnp.nan, out)
        return out


class BlackjaxSeam:
    """What the stand-in ``blackjax`` reports: one record per kernel construction."""

    def __init__(self):
        self.kernels = []  # dicts: fn, starts [z], evals [(z, value)]

    def kernel_built(self, fn):
        self.kernels.append({"fn": fn, "starts": [], "evals": []})

    def start(self, z):
        self.kernels[-1]["starts"].append(np.array(z, dtype=np.float64))

    def evaluated(self, z, v):
        self.kernels[-1]["evals"].append((np.array(z, dtype=np.float64), float(v)))


def install(seam):
    import blackjax

    prev = getattr(blackjax, "SEAM", None)
    blackjax.SEAM = seam
    return prev
