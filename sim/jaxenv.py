"""jax-traceable user model + kernel seam for BlackJAXSMC (which evaluates the user's callables under vmap / scan).

The numpy ``SimLikelihood`` / ``SimPrior`` of ``env.py`` cannot be traced, so this is the same closed-form ``Target`` written
with ``jax.numpy``.  Calls with concrete arrays are recorded (model seam); traced calls are only counted.
"""

from __future__ import annotations

import math

import numpy as np


class JaxModel:
    def __init__(self, target):
        import jax.numpy as jnp

        self.t = target
        self.jnp = jnp
        self.lo = jnp.asarray(np.asarray(target.lower, dtype=np.float64))
        self.hi = jnp.asarray(np.asarray(target.upper, dtype=np.float64))
        self.concrete = []  # (kind, x) for calls made with concrete arrays, in order
        self.n_traced = {"like": 0, "prior": 0}
        self.n_points = {"like": 0, "prior": 0}
        self.n_concrete_like_calls = 0
        self.crash_at_concrete_like = None  # crash seam: raise at this (0-based) eager likelihood call

    def _note(self, kind, x):
        import jax

        if isinstance(x, jax.core.Tracer):
            self.n_traced[kind] += 1
        else:
            a = np.asarray(x, dtype=np.float64)
            if kind == "like":
                k = self.n_concrete_like_calls
                self.n_concrete_like_calls += 1
                if self.crash_at_concrete_like is not None and k == self.crash_at_concrete_like:
                    from .core import SimModelError

                    raise SimModelError(f"simulated model failure at eager likelihood call {k}")
            self.concrete.append((kind, a.reshape(-1, self.t.dims)))
            self.n_points[kind] += len(a.reshape(-1, self.t.dims))

    def log_prior(self, samples, map_fn=None):
        jnp = self.jnp
        x = samples.x
        self._note("prior", x)
        inside = jnp.all((x >= self.lo) & (x <= self.hi), axis=-1)
        if self.t.prior_hole is not None:
            d, a, b = self.t.prior_hole
            inside = inside & ~((x[..., d] > a) & (x[..., d] < b))
        return jnp.where(inside, -jnp.sum(jnp.log(self.hi - self.lo)), -jnp.inf)

    def log_likelihood(self, samples, map_fn=None):
        jnp = self.jnp
        t = self.t
        x = samples.x
        self._note("like", x)
        out = jnp.zeros(x.shape[:-1], dtype=x.dtype) + float(t.c)
        for i in range(t.dims):
            xi = x[..., i]
            k = t.factor[i]
            if k == "gauss":
                out = out - 0.5 * ((xi - t.mu[i]) / t.sigma[i]) ** 2
            elif k == "vm":
                out = out + t.kappa[i] * jnp.cos(xi - t.mu[i])
            elif k == "bimodal":
                a = -0.5 * ((xi - t.mu[i] - t.sep[i]) / t.sigma[i]) ** 2
                b = -0.5 * ((xi - t.mu[i] + t.sep[i]) / t.sigma[i]) ** 2
                out = out + jnp.logaddexp(a, b) + math.log(0.5)
            else:
                raise ValueError(k)
        if t.like_cut is not None:
            d, thr = t.like_cut
            out = jnp.where(x[..., d] < thr, -jnp.inf, out)
        if t.nan_region is not None:
            d, a, b = t.nan_region
            out = jnp.where((x[..., d] > a) & (x[..., d] < b), jnp.nan, out)
        return out


class BlackjaxSeam:
    """What the stand-in ``blackjax`` reports: one record per kernel construction."""

    def __init__(self):
        self.kernels = []  # dicts: fn, starts [z], evals [(z, value)]

    def kernel_built(self, fn):
        self.kernels.append({"fn": fn, "starts": [], "evals": []})

    def start(self, z):
        self.kernels[-1]["starts"].append(np.array(z, dtype=np.float64))

    def evaluated(self, z, v):
        self.kernels[-1]["evals"].append((np.array(z, dtype=np.float64), float(v)))


def install(seam):
    import blackjax

    prev = getattr(blackjax, "SEAM", None)
    blackjax.SEAM = seam
    return prev
