"""The user's side of the simulation: analytic targets, the instrumented
likelihood / prior callables (model seam + crash seam) and the fake pool."""

from __future__ import annotations

import math
from dataclasses import dataclass, field

import numpy as np
from scipy import special, stats

from .core import SimInterrupt, SimModelError, SimStop, Trace, ahash, to_np

TWO_PI = 2.0 * math.pi


# ----------------------------------------------------------------------------
# analytic targets: uniform prior on a box x product likelihood
# ----------------------------------------------------------------------------
@dataclass
class Target:
    """Uniform prior on ``[lower, upper]^d`` times a product likelihood.

    Per-dimension factor kinds:
      "gauss"   exp(-((x-mu)/sigma)^2/2)
      "vm"      exp(kappa cos(x-mu))          (periodic dimension, width 2 pi)
      "bimodal" mixture of two equal-weight gaussians at mu +- sep
    plus a constant log-offset ``c``.  Everything is closed-form.
    """

    kind: str
    dims: int
    lower: list
    upper: list
    factor: list  # per-dim kind
    mu: list
    sigma: list
    kappa: list = field(default_factory=list)
    sep: list = field(default_factory=list)
    c: float = 0.0
    nan_region: tuple | None = None  # (dim, lo, hi): likelihood is NaN there
    prior_hole: tuple | None = None  # (dim, lo, hi): prior is zero there
    like_cut: tuple | None = None  # (dim, threshold): likelihood is exactly zero (log = -inf) where x[dim] < threshold
    prior_floor: float | None = None  # outside the support the prior returns this finite float64 sentinel instead of -inf

    # -- serialisation (scenario files) --------------------------------------
    def to_dict(self):
        return {
            k: getattr(self, k)
            for k in (
                "kind dims lower upper factor mu sigma kappa sep c nan_region prior_hole like_cut prior_floor"
            ).split()
        }

    @classmethod
    def from_dict(cls, d):
        d = dict(d)
        for k in ("nan_region", "prior_hole", "like_cut"):
            if d.get(k) is not None:
                d[k] = tuple(d[k])
        return cls(**d)

    # deliberately NOT in alphabetical order: anything that silently re-orders by name (HDF5 groups iterate
    # alphabetically) then mismatches names and columns
    NAMES = ("theta", "mass", "chi", "alpha", "zeta", "beta_p")

    @property
    def parameters(self):
        return [self.NAMES[i] for i in range(self.dims)]

    @property
    def periodic_parameters(self):
        return [self.NAMES[i] for i in range(self.dims) if self.factor[i] == "vm"]

    @property
    def prior_bounds(self):
        # a bound stored as a Python int is handed to aspire as an integer literal ({"x": [0, 10]}, as users write them)
        def lit(v):
            return int(v) if isinstance(v, int) and not isinstance(v, bool) else float(v)

        return {
            self.NAMES[i]: ([lit(self.lower[i]), lit(self.upper[i])] if isinstance(self.lower[i], int) and isinstance(self.upper[i], int)
                            else (float(self.lower[i]), float(self.upper[i])))
            for i in range(self.dims)
        }

    # -- densities (float64 numpy) -------------------------------------------
    def log_prior(self, x):
        x = np.asarray(x, dtype=np.float64)
        lo = np.asarray(self.lower)
        hi = np.asarray(self.upper)
        inside = np.all((x >= lo) & (x <= hi), axis=1)
        if self.prior_hole is not None:
            d, a, b = self.prior_hole
            inside &= ~((x[:, d] > a) & (x[:, d] < b))
        lp = np.full(len(x), -np.sum(np.log(hi - lo)))
        return np.where(inside, lp, -np.inf if self.prior_floor is None else float(self.prior_floor))

    def log_like(self, x):
        x = np.asarray(x, dtype=np.float64)
        out = np.full(len(x), float(self.c))
        for i in range(self.dims):
            xi = x[:, i]
            k = self.factor[i]
            if k == "gauss":
                out = out - 0.5 * ((xi - self.mu[i]) / self.sigma[i]) ** 2
            elif k == "vm":
                out = out + self.kappa[i] * np.cos(xi - self.mu[i])
            elif k == "bimodal":
                a = -0.5 * ((xi - self.mu[i] - self.sep[i]) / self.sigma[i]) ** 2
                b = -0.5 * ((xi - self.mu[i] + self.sep[i]) / self.sigma[i]) ** 2
                out = out + np.logaddexp(a, b) + math.log(0.5)
            else:
                raise ValueError(k)
        if self.like_cut is not None:
            d, thr = self.like_cut
            out = np.where(x[:, d] < thr, -np.inf, out)
        if self.nan_region is not None:
            d, a, b = self.nan_region
            out = np.where((x[:, d] > a) & (x[:, d] < b), np.nan, out)
        return out

    # -- closed forms ----------------------------------------------------------
    def _gauss_mass(self, i, mu):
        s = self.sigma[i]
        a = (self.lower[i] - mu) / s
        b = (self.upper[i] - mu) / s
        return s * math.sqrt(TWO_PI) * (stats.norm.cdf(b) - stats.norm.cdf(a))

    def log_Z(self):
        """log of  int L(x) pi(x) dx  (requires no nan_region / prior_hole)."""
        lz = float(self.c)
        for i in range(self.dims):
            w = self.upper[i] - self.lower[i]
            k = self.factor[i]
            if k == "gauss":
                m = self._gauss_mass(i, self.mu[i])
            elif k == "vm":
                m = TWO_PI * special.i0(self.kappa[i])
            else:
                m = 0.5 * (
                    self._gauss_mass(i, self.mu[i] + self.sep[i])
                    + self._gauss_mass(i, self.mu[i] - self.sep[i])
                )
            lz += math.log(m) - math.log(w)
        return lz

    def _tn_moments(self, i, mu):
        s = self.sigma[i]
        a = (self.lower[i] - mu) / s
        b = (self.upper[i] - mu) / s
        m, v = stats.truncnorm.stats(a, b, loc=mu, scale=s, moments="mv")
        return float(m), float(v)

    def moments(self):
        """Per-dimension posterior (mean, variance); for periodic dims the mean
        and variance of cos(x-mu) and sin(x-mu) are returned instead via
        ``circ_moments``."""
        mean, var = [], []
        for i in range(self.dims):
            k = self.factor[i]
            if k == "gauss":
                m, v = self._tn_moments(i, self.mu[i])
            elif k == "bimodal":
                m1, v1 = self._tn_moments(i, self.mu[i] + self.sep[i])
                m2, v2 = self._tn_moments(i, self.mu[i] - self.sep[i])
                w1 = self._gauss_mass(i, self.mu[i] + self.sep[i])
                w2 = self._gauss_mass(i, self.mu[i] - self.sep[i])
                w1, w2 = w1 / (w1 + w2), w2 / (w1 + w2)
                m = w1 * m1 + w2 * m2
                v = w1 * (v1 + m1**2) + w2 * (v2 + m2**2) - m**2
            else:
                m, v = float("nan"), float("nan")
            mean.append(m)
            var.append(v)
        return np.array(mean), np.array(var)

    def circ_moments(self, i):
        """E[cos(x-mu)], Var[cos(x-mu)] for a von-Mises dimension."""
        k = self.kappa[i]
        i0, i1, i2 = special.i0(k), special.i1(k), special.iv(2, k)
        a1 = i1 / i0
        a2 = i2 / i0
        return a1, 0.5 * (1 + a2) - a1**2


def make_target(kind: str, dims: int, rng: np.random.Generator, **over) -> Target:
    """Draw one target of the named family."""
    lower = [float(np.round(rng.uniform(-3.0, 0.0), 3)) for _ in range(dims)]
    width = [float(np.round(rng.uniform(4.0, 12.0), 3)) for _ in range(dims)]
    upper = [lo + w for lo, w in zip(lower, width)]
    factor = ["gauss"] * dims
    mu = [lo + w * float(rng.uniform(0.35, 0.65)) for lo, w in zip(lower, width)]
    sigma = [w * float(rng.uniform(0.06, 0.14)) for w in width]
    kappa = [0.0] * dims
    sep = [0.0] * dims
    if kind == "gauss_box":
        pass
    elif kind == "hug":
        # posterior mass piles up against the upper bound of dim 0
        mu[0] = upper[0] + width[0] * float(rng.uniform(-0.02, 0.03))
        sigma[0] = width[0] * float(rng.uniform(0.05, 0.1))
    elif kind == "periodic":
        lower[0] = float(np.round(rng.uniform(-3.0, 0.0), 3))
        upper[0] = lower[0] + TWO_PI
        factor[0] = "vm"
        # mode anywhere on the circle, including near the seam
        mu[0] = lower[0] + float(rng.choice([0.05, 0.5, 0.97])) * TWO_PI
        kappa[0] = float(rng.uniform(2.0, 6.0))
    elif kind == "bimodal":
        factor[0] = "bimodal"
        mu[0] = lower[0] + 0.5 * width[0]
        sep[0] = 0.2 * width[0]
        sigma[0] = 0.07 * width[0]
    elif kind == "peaked":
        f = float(over.pop("peak", 10 ** rng.uniform(-5, -2.5)))
        sigma = [w * f for w in width]
    else:
        raise ValueError(kind)
    c = float(over.pop("c", 0.0))
    t = Target(kind, dims, lower, upper, factor, mu, sigma, kappa, sep, c)
    for k, v in over.items():
        setattr(t, k, v)
    return t


# ----------------------------------------------------------------------------
# the model seam
# ----------------------------------------------------------------------------
class Model:
    """State shared by the likelihood and prior callables of one simulated
    process: counters, trace, scheduled faults, call-time invariants."""

    def __init__(self, target: Target, trace: Trace | None = None):
        self.target = target
        self.trace = trace if trace is not None else Trace()
        self.n_like_calls = 0
        self.n_prior_calls = 0
        self.n_like_points = 0
        self.n_prior_points = 0
        # faults
        self.crash_like_at: int | None = None  # 0-based call index
        self.crash_prior_at: int | None = None
        self.crash_kind = "interrupt"
        self.stop_after_like_calls: int | None = None
        self.fired: list = []
        # call-time invariant failures (C17): (seq, what)
        self.c17_failures: list = []
        self.last_prior_hash: dict = {}
        self.prior_rows: set = set()  # bytes of every row the prior was asked about
        self.return_numpy = False
        # listeners: fn(kind, samples, values_np)
        self.listeners: list = []
        # pre-listeners: fn(kind) at the very start of a call, before any fault
        self.pre_listeners: list = []

    def _raise(self, seam, k):
        self.fired.append((seam, k, self.crash_kind, self.trace.phase))
        self.trace.log("crash", seam=seam, k=k, kind=self.crash_kind, phase=self.trace.phase)
        if self.crash_kind == "interrupt":
            raise SimInterrupt(f"{seam}@{k}")
        raise SimModelError(f"{seam}@{k}")

    def _out(self, samples, val):
        if self.return_numpy:
            return val
        xp = samples.xp
        try:
            return xp.asarray(val, dtype=samples.dtype)
        except Exception:
            return xp.asarray(val)


class SimPrior:
    def __init__(self, model: Model):
        self.model = model

    def __call__(self, samples, map_fn=map):
        m = self.model
        for fn in m.pre_listeners:
            fn("prior")
        k = m.n_prior_calls
        if m.crash_prior_at is not None and k == m.crash_prior_at:
            m.n_prior_calls += 1
            m._raise("prior", k)
        x = to_np(samples.x)
        x = np.asarray(x, dtype=np.float64)
        if x.ndim == 1:
            x = x[:, None]
        h = ahash(x)
        if map_fn is not map:
            val = np.fromiter(
                map_fn(self._point, [row for row in x]), dtype=np.float64, count=len(x)
            )
        else:
            val = m.target.log_prior(x)
        m.n_prior_calls += 1
        m.n_prior_points += len(x)
        m.last_prior_hash[h] = m.trace.log("prior", k=k, n=len(x), x=h, phase=m.trace.phase)
        m.prior_rows.update(row.tobytes() for row in x)
        for fn in m.listeners:
            fn("prior", samples, val)
        return m._out(samples, val)

    def _point(self, row):
        return float(self.model.target.log_prior(np.asarray(row)[None, :])[0])


class SimLikelihood:
    def __init__(self, model: Model):
        self.model = model

    def __call__(self, samples, map_fn=map):
        m = self.model
        for fn in m.pre_listeners:
            fn("like")
        k = m.n_like_calls
        if m.stop_after_like_calls is not None and k >= m.stop_after_like_calls:
            raise SimStop(f"like@{k}")
        if m.crash_like_at is not None and k == m.crash_like_at:
            m.n_like_calls += 1
            m._raise("like", k)
        x = to_np(samples.x)
        x = np.asarray(x, dtype=np.float64)
        if x.ndim == 1:
            x = x[:, None]
        h = ahash(x)
        # ---- C17 call-time invariant: the prior of exactly these points is attached
        lp = getattr(samples, "log_prior", None)
        attached = lp is not None
        ok = attached
        why = None
        if not attached:
            why = "log_prior is None at likelihood call"
        else:
            lp_np = np.asarray(to_np(lp), dtype=np.float64).reshape(-1)
            if lp_np.shape[0] != len(x):
                ok, why = False, f"log_prior has {lp_np.shape[0]} entries for {len(x)} points"
            else:
                ref = m.target.log_prior(x)
                fin = np.isfinite(ref)
                tol = 1e-4 if str(samples.dtype).endswith("32") else 1e-9
                if not (
                    np.array_equal(fin, np.isfinite(lp_np))
                    and np.allclose(lp_np[fin], ref[fin], rtol=tol, atol=tol)
                ):
                    ok, why = False, "attached log_prior is not the prior of these points"
            if ok and h not in m.last_prior_hash:
                missing = sum(1 for row in x if row.tobytes() not in m.prior_rows)
                if missing:
                    ok, why = False, f"{missing} of {len(x)} points were never passed to the prior before this likelihood call"
        if map_fn is not map:
            val = np.fromiter(
                map_fn(self._point, [row for row in x]), dtype=np.float64, count=len(x)
            )
        else:
            val = m.target.log_like(x)
        m.n_like_calls += 1
        m.n_like_points += len(x)
        seq = m.trace.log(
            "like", k=k, n=len(x), x=h, prior_attached=bool(attached), phase=m.trace.phase
        )
        if not ok:
            m.c17_failures.append({"seq": seq, "k": k, "phase": m.trace.phase, "why": why})
        for fn in m.listeners:
            fn("like", samples, val)
        return m._out(samples, val)

    def _point(self, row):
        return float(self.model.target.log_like(np.asarray(row)[None, :])[0])


# ----------------------------------------------------------------------------
# fake worker pool
# ----------------------------------------------------------------------------
class PoolShutdownError(RuntimeError):
    """Raised by a FakePool whose shutdown was told to fail."""


class FakePool:
    """In-process stand-in for ``multiprocessing.Pool``: records calls, can
    fail inside ``map`` (worker failure) and inside its own shutdown
    (``fail_close`` = "close" | "join": that call raises ``PoolShutdownError``)."""

    def __init__(self, name="pool", fail_map_at: int | None = None, fail_close: str | None = None):
        self.name = name
        self.n_map = 0
        self.n_close = 0
        self.n_join = 0
        self.fail_map_at = fail_map_at
        self.fail_close = fail_close

    def map(self, fn, iterable, chunksize=None):
        k = self.n_map
        self.n_map += 1
        if self.fail_map_at is not None and k == self.fail_map_at:
            raise SimModelError(f"pool.map@{k}")
        return [fn(v) for v in iterable]

    def close(self):
        self.n_close += 1
        if self.fail_close == "close":
            raise PoolShutdownError("pool.close failed")

    def join(self):
        self.n_join += 1
        if self.fail_close == "join":
            raise PoolShutdownError("pool.join failed")
