"""Seeds, trace, digests, crash types and the entropy seam."""

from __future__ import annotations

import hashlib
import json
import math
from contextlib import contextmanager

import numpy as np

PROPERTY_NO = {f"C{i:02d}": i for i in range(1, 21)}


# ----------------------------------------------------------------------------
# crash types
# ----------------------------------------------------------------------------
class SimInterrupt(BaseException):
    """The simulated process is killed (like Ctrl-C / SIGKILL) at a seam."""


class SimModelError(RuntimeError):
    """The user's model raises (ordinary exception) at a seam."""


class SimStop(BaseException):
    """Harness-delivered stop (bounded liveness); never a property verdict."""


class HarnessError(Exception):
    """Bug or impossibility in the simulator itself: never a VIOLATION."""


# ----------------------------------------------------------------------------
# seed discipline: one integer decides everything
# ----------------------------------------------------------------------------
STREAMS = (
    "scenario",
    "ops",
    "faults",
    "target",
    "proposal",
    "entropy",
    "user_rng",
    "train",
    "misc",
)


def seed_sequence(verif_seed: int, prop: str, run_index: int) -> np.random.SeedSequence:
    return np.random.SeedSequence([int(verif_seed), PROPERTY_NO.get(prop, 99), int(run_index)])


def stream_seeds(verif_seed: int, prop: str, run_index: int) -> dict[str, int]:
    """Independent 63-bit integer seeds, one per named stream."""
    ss = seed_sequence(verif_seed, prop, run_index)
    kids = ss.spawn(len(STREAMS))
    return {
        name: int(k.generate_state(1, dtype=np.uint64)[0] >> np.uint64(1))
        for name, k in zip(STREAMS, kids)
    }


def rng_from(seed: int) -> np.random.Generator:
    return np.random.Generator(np.random.PCG64(int(seed)))


# ----------------------------------------------------------------------------
# hashing helpers (no clocks, no pids, no paths)
# ----------------------------------------------------------------------------
def _contig(a):
    a = np.asarray(a)
    if a.ndim and not a.flags["C_CONTIGUOUS"]:
        a = np.array(a, order="C")
    return a


def to_np(a):
    """Any supported array -> contiguous numpy array (no autograd, cpu)."""
    if a is None:
        return None
    if isinstance(a, np.ndarray):
        return _contig(a)
    mod = type(a).__module__
    if mod.startswith("torch"):
        return _contig(a.detach().cpu().numpy())
    return _contig(np.asarray(a))


def ahash(a) -> str:
    """Short hash of an array's dtype, shape and bytes."""
    if a is None:
        return "none"
    a = to_np(a)
    h = hashlib.sha256()
    h.update(str(a.dtype).encode())
    h.update(str(a.shape).encode())
    h.update(a.tobytes())
    return h.hexdigest()[:16]


def _canon(o):
    if o is None or isinstance(o, (bool, str, int)):
        return o
    if isinstance(o, float):
        if math.isnan(o):
            return "nan"
        if math.isinf(o):
            return "inf" if o > 0 else "-inf"
        return float(o).hex()
    if isinstance(o, (np.floating,)):
        return _canon(float(o))
    if isinstance(o, (np.integer,)):
        return int(o)
    if isinstance(o, (np.bool_,)):
        return bool(o)
    if isinstance(o, bytes):
        return "bytes:" + hashlib.sha256(o).hexdigest()[:16]
    if isinstance(o, dict):
        return {str(k): _canon(v) for k, v in sorted(o.items(), key=lambda kv: str(kv[0]))}
    if isinstance(o, (list, tuple)):
        return [_canon(v) for v in o]
    if hasattr(o, "shape") and hasattr(o, "dtype"):
        a = to_np(o)
        if a.ndim == 0:
            return _canon(a.item())
        return "arr:" + ahash(a)
    return repr(o)


def digest_of(obj) -> str:
    return hashlib.sha256(
        json.dumps(_canon(obj), sort_keys=True, separators=(",", ":")).encode()
    ).hexdigest()


def jsonable(o):
    """Lossy but readable JSON form (for replay/evidence files)."""
    if o is None or isinstance(o, (bool, str, int)):
        return o
    if isinstance(o, float):
        if math.isnan(o) or math.isinf(o):
            return repr(o)
        return o
    if isinstance(o, (np.floating,)):
        return jsonable(float(o))
    if isinstance(o, (np.integer,)):
        return int(o)
    if isinstance(o, (np.bool_,)):
        return bool(o)
    if isinstance(o, bytes):
        return "bytes:%d:%s" % (len(o), hashlib.sha256(o).hexdigest()[:16])
    if isinstance(o, dict):
        return {str(k): jsonable(v) for k, v in o.items()}
    if isinstance(o, (list, tuple)):
        return [jsonable(v) for v in o]
    if hasattr(o, "shape") and hasattr(o, "dtype"):
        a = to_np(o)
        if a.size <= 16:
            return jsonable(a.tolist())
        return "arr%s:%s:%s" % (list(a.shape), a.dtype, ahash(a))
    return repr(o)


# ----------------------------------------------------------------------------
# trace
# ----------------------------------------------------------------------------
class Trace:
    """Ordered seam events of one simulated execution.

    Every event gets a global sequence number.  Logging never draws from a
    PRNG and never reads a clock.
    """

    def __init__(self):
        self.events: list[tuple] = []
        self.counts: dict[str, int] = {}
        self.phase = "init"

    def log(self, _kind: str, **kw):
        seq = len(self.events)
        self.events.append((seq, _kind, kw))
        self.counts[_kind] = self.counts.get(_kind, 0) + 1
        return seq

    def of(self, *kinds):
        return [e for e in self.events if e[1] in kinds]

    def digest(self) -> str:
        return digest_of([(k, kw) for _, k, kw in self.events])

    def tail(self, n=30):
        return [jsonable((s, k, kw)) for s, k, kw in self.events[-n:]]


# ----------------------------------------------------------------------------
# entropy seam: unseeded generators in the simulator process
# ----------------------------------------------------------------------------
class EntropySeam:
    """Serves OS-entropy requests (``np.random.default_rng()`` with no seed,
    ``orng.ArrayRNG()`` with no seed) from the run's own PRNG and logs them."""

    current: "EntropySeam | None" = None

    def __init__(self, seed: int, trace: Trace | None):
        self.rng = rng_from(seed)
        self.trace = trace
        self.requests = 0

    def draw_seed(self, who: str) -> int:
        self.requests += 1
        s = int(self.rng.integers(0, 2**62))
        if self.trace is not None:
            self.trace.log("entropy", who=who, n=self.requests)
        return s


_real_default_rng = np.random.default_rng


def _patched_default_rng(seed=None):
    seam = EntropySeam.current
    if seed is None and seam is not None:
        from .rng import SimGenerator

        return SimGenerator(
            np.random.PCG64(seam.draw_seed("numpy.default_rng")),
            trace=seam.trace,
            name="entropy",
        )
    return _real_default_rng(seed)


@contextmanager
def entropy_seam(seed: int, trace: Trace | None):
    """Install the entropy seam for the duration of one simulated process."""
    prev = EntropySeam.current
    seam = EntropySeam(seed, trace)
    EntropySeam.current = seam
    np.random.default_rng = _patched_default_rng
    try:
        yield seam
    finally:
        EntropySeam.current = prev
        if prev is None:
            np.random.default_rng = _real_default_rng
