"""SimFlow: an analytic proposal implementing ``aspire.flows.base.Flow``.

Registered as backend ``"simflow"`` through the documented ``aspire.flows``
entry-point group (see ``sim/stubs/simflow-0.0.dist-info``).  Its density is
known in closed form and every instance carries a fingerprint.

kinds
  "native"  independent Gaussian N(loc, scale) in the user's space (pure
            numpy, no repo code) -- may leak mass outside the prior box.
  "jnative" as "native", but ``log_prob`` is written with jax.numpy so that it can be traced (BlackJAXSMC).
  "latent"  Gaussian in the latent space of the repo's *real* ``FlowTransform``
            handed over by ``Aspire.init_flow`` (bounded logit/probit + affine),
            so the repo's transform/Jacobian code is on the path.
``alpha > 0`` adds a defensive uniform-on-the-box mixture component (needs
``box``), which bounds importance weights whatever the target does.
"""

from __future__ import annotations

import hashlib
import json
import math

import array_api_compat.numpy as xnp
import numpy as np

from aspire.flows.base import Flow
from aspire.history import FlowHistory

from .core import to_np

LOG_2PI = math.log(2.0 * math.pi)


class SimFlow(Flow):
    xp = xnp

    def __init__(
        self,
        dims: int,
        device=None,
        data_transform=None,
        dtype=None,
        seed: int = 0,
        kind: str = "native",
        inflate: float = 1.5,
        alpha: float = 0.0,
        box=None,
        loc=None,
        scale=None,
    ):
        super().__init__(dims, device=device, data_transform=data_transform)
        self.dtype = dtype
        self.seed = int(seed)
        self.kind = kind
        self.inflate = float(inflate)
        self.alpha = float(alpha)
        self.box = None if box is None else np.asarray(box, dtype=np.float64).reshape(dims, 2)
        self.loc = np.zeros(dims) if loc is None else np.asarray(loc, dtype=np.float64)
        self.scale = np.ones(dims) if scale is None else np.asarray(scale, dtype=np.float64)
        self._rng = np.random.Generator(np.random.PCG64(self.seed))
        self.n_sample_calls = 0
        self.n_log_prob_calls = 0
        self.listeners = []  # fn(kind, x, log_q)
        if self.alpha > 0 and self.box is None:
            raise ValueError("alpha > 0 needs box")

    # -- identity --------------------------------------------------------------
    @property
    def fingerprint(self) -> str:
        h = hashlib.sha256()
        h.update(self.kind.encode())
        h.update(np.asarray(self.loc, dtype=np.float64).tobytes())
        h.update(np.asarray(self.scale, dtype=np.float64).tobytes())
        h.update(repr((self.alpha, None if self.box is None else self.box.tolist())).encode())
        return h.hexdigest()[:12]

    # -- base density ----------------------------------------------------------
    def _base_logpdf(self, z):
        u = (z - self.loc) / self.scale
        return -0.5 * np.sum(u * u, axis=1) - np.sum(np.log(self.scale)) - 0.5 * self.dims * LOG_2PI

    def _fwd(self, x):
        """x -> (z, log|dz/dx|) for the smooth component."""
        if self.kind == "latent":
            z, lj = self.data_transform.forward(x)
            return np.asarray(z, dtype=np.float64), np.asarray(lj, dtype=np.float64)
        return x, np.zeros(len(x))

    def _inv(self, z):
        if self.kind == "latent":
            x, lj = self.data_transform.inverse(z)
            return np.asarray(x, dtype=np.float64), np.asarray(lj, dtype=np.float64)
        return z, np.zeros(len(z))

    def _log_uniform(self, x):
        lo, hi = self.box[:, 0], self.box[:, 1]
        inside = np.all((x >= lo) & (x <= hi), axis=1)
        return np.where(inside, -np.sum(np.log(hi - lo)), -np.inf)

    def _log_density(self, x):
        x = np.asarray(x, dtype=np.float64)
        with np.errstate(all="ignore"):
            z, lj = self._fwd(x)
            smooth = self._base_logpdf(z) + lj
            # outside the support of a bounded data transform the stub's density is zero (never NaN)
            smooth = np.where(np.isnan(smooth), -np.inf, smooth)
        if self.alpha > 0:
            with np.errstate(all="ignore"):
                return np.logaddexp(
                    math.log1p(-self.alpha) + smooth,
                    math.log(self.alpha) + self._log_uniform(x),
                )
        return smooth

    # -- Flow interface ----------------------------------------------------------
    def fit(self, x, inflate=None, **kwargs):
        x = np.asarray(to_np(x), dtype=np.float64)
        if self.kind == "latent":
            z = np.asarray(self.fit_data_transform(x), dtype=np.float64)
        else:
            z = x
        f = self.inflate if inflate is None else float(inflate)
        loc, scale = z.mean(axis=0), z.std(axis=0) * f
        if getattr(self, "_n_fits", 0) > 0:
            # like a trainable model, a fit of an already fitted flow starts from where it is (training continues from the
            # current weights): the result depends on the object's history, not on the data alone
            loc = 0.75 * loc + 0.25 * self.loc
            scale = np.sqrt(0.75 * scale**2 + 0.25 * self.scale**2)
        self._n_fits = getattr(self, "_n_fits", 0) + 1
        self.loc, self.scale = loc, scale
        return FlowHistory(training_loss=[0.0], validation_loss=[0.0])

    def _draw(self, n):
        z = self.loc + self.scale * self._rng.normal(size=(n, self.dims))
        x, _ = self._inv(z)
        if self.alpha > 0:
            pick = self._rng.uniform(size=n) < self.alpha
            u = self.box[:, 0] + (self.box[:, 1] - self.box[:, 0]) * self._rng.uniform(
                size=(n, self.dims)
            )
            x = np.where(pick[:, None], u, x)
        return np.asarray(x, dtype=np.float64)

    def sample_and_log_prob(self, n_samples, xp=None):
        self.n_sample_calls += 1
        x = self._draw(int(n_samples))
        log_q = self._log_density(x)
        for fn in self.listeners:
            fn("sample", x, log_q)
        return x, log_q

    def sample(self, n_samples, xp=None):
        return self.sample_and_log_prob(n_samples)[0]

    def log_prob(self, x, xp=None):
        self.n_log_prob_calls += 1
        if self.kind == "jnative":
            # jax-traceable evaluation (BlackJAXSMC calls the proposal under vmap / scan / jit): no numpy conversion
            import jax.numpy as jnp

            x = jnp.asarray(x)
            if x.ndim == 1:
                x = x[None, :]
            u = (x - jnp.asarray(self.loc)) / jnp.asarray(self.scale)
            return -0.5 * jnp.sum(u * u, axis=1) - float(np.sum(np.log(self.scale))) - 0.5 * self.dims * LOG_2PI
        x = np.asarray(to_np(x), dtype=np.float64)
        if x.ndim == 1:
            x = x[None, :]
        log_q = self._log_density(x)
        for fn in self.listeners:
            fn("log_prob", x, log_q)
        return log_q

    def forward(self, x, xp=None):
        x = np.asarray(to_np(x), dtype=np.float64)
        z, lj = self._fwd(x)
        u = (z - self.loc) / self.scale
        lj = lj - np.sum(np.log(self.scale))
        xp = xp or xnp
        return xp.asarray(u), xp.asarray(lj)

    def inverse(self, u, xp=None):
        u = np.asarray(to_np(u), dtype=np.float64)
        z = self.loc + self.scale * u
        x, lj = self._inv(z)
        lj = lj + np.sum(np.log(self.scale))
        xp = xp or xnp
        return xp.asarray(x), xp.asarray(lj)

    # -- persistence ---------------------------------------------------------------
    def save(self, h5_file, path="flow"):
        grp = h5_file.create_group(path)
        cfg = {
            "dims": int(self.dims),
            "seed": self.seed,
            "kind": self.kind,
            "inflate": self.inflate,
            "alpha": self.alpha,
            "dtype": None if self.dtype is None else str(self.dtype),
            "rng_state": json.dumps(self._rng.bit_generator.state),
        }
        grp.attrs["config"] = json.dumps(cfg)
        grp.create_dataset("loc", data=self.loc)
        grp.create_dataset("scale", data=self.scale)
        if self.box is not None:
            grp.create_dataset("box", data=self.box)
        if self.kind == "latent" and self.data_transform is not None:
            self.data_transform.save(grp, "data_transform")

    @classmethod
    def load(cls, h5_file, path="flow"):
        grp = h5_file[path]
        cfg = json.loads(grp.attrs["config"])
        rng_state = json.loads(cfg.pop("rng_state"))
        dt = None
        if "data_transform" in grp:
            from aspire.transforms import BaseTransform

            dt = BaseTransform.load(grp, "data_transform", strict=False)
        obj = cls(
            data_transform=dt,
            loc=grp["loc"][()],
            scale=grp["scale"][()],
            box=grp["box"][()] if "box" in grp else None,
            **cfg,
        )
        obj._rng.bit_generator.state = rng_state
        return obj
