"""Command line of the simulator.

  python -m sim.cli setup
  python -m sim.cli check C11 --tier quick|thorough   (honours VERIF_SEED, VERIF_TIER)
  python -m sim.cli replay <path>
  python -m sim.cli selftest [determinism|...]
"""

from __future__ import annotations

import argparse
import importlib
import os
import sys


def _reexec_with_hashseed():
    want = os.environ.get("VERIF_HASHSEED", "0")
    if os.environ.get("PYTHONHASHSEED") != want:
        env = dict(os.environ)
        env["PYTHONHASHSEED"] = want
        os.execve(sys.executable, [sys.executable, "-m", "sim.cli"] + sys.argv[1:], env)


def cmd_setup():
    import sim  # noqa: F401

    missing = []
    for m in ("numpy", "scipy", "h5py", "hypothesis", "aspire", "minipcn", "orng", "emcee"):
        try:
            importlib.import_module(m)
        except Exception as e:  # pragma: no cover
            missing.append(f"{m}: {e}")
    from importlib.metadata import entry_points

    eps = {ep.name for ep in entry_points(group="aspire.flows")}
    if "simflow" not in eps:
        missing.append("entry point aspire.flows:simflow not visible")
    try:
        import jsonschema  # noqa: F401
    except ImportError:
        # optional: evidence files fall back to the built-in validator
        import subprocess

        subprocess.run(
            [sys.executable, "-m", "pip", "install", "-q", "--no-index", "--find-links",
             "/opt/veriftools/wheels", "jsonschema"],
            check=False,
        )
    if missing:
        print("setup failed:\n  " + "\n  ".join(missing))
        return 2
    import minipcn

    if not getattr(minipcn, "__version__", "").endswith("-sim"):
        print("note: a real minipcn is installed; the simulator still uses its fake (first on sys.path)")
    print("setup ok")
    return 0


def main(argv=None):
    ap = argparse.ArgumentParser(prog="sim.cli")
    sub = ap.add_subparsers(dest="cmd", required=True)
    sub.add_parser("setup")
    c = sub.add_parser("check")
    c.add_argument("prop")
    c.add_argument("--tier", default=None)
    r = sub.add_parser("replay")
    r.add_argument("path")
    s = sub.add_parser("selftest")
    s.add_argument("what", nargs="?", default="determinism")
    s.add_argument("--n", type=int, default=40)
    args = ap.parse_args(argv)

    if args.cmd == "setup":
        return cmd_setup()

    _reexec_with_hashseed()
    import sim  # noqa: F401
    from sim import harness

    if args.cmd == "check":
        tier = args.tier or os.environ.get("VERIF_TIER") or "quick"
        if tier not in ("quick", "thorough"):
            tier = "quick"
        seed = int(os.environ.get("VERIF_SEED", "0") or 0)
        mod = importlib.import_module(f"sim.checks.{args.prop.lower()}")
        if tier == "thorough" and not os.environ.get("VERIF_CASE_CAP"):
            # the per-case wall cap is a hang detector (a killed case is exit 3, never a pass): thorough cases with real flows
            # and many replicates take minutes each on a loaded machine, so they get more headroom than quick ones
            harness.CASE_WALL_CAP = 1500
        return harness.run_check(mod, tier, seed)
    if args.cmd == "replay":
        sim.pin_to_one_cpu()  # the case runs in this process
        return harness.replay(args.path)
    if args.cmd == "selftest":
        from sim import selftest

        return selftest.main(args.what, args.n)
    return 2


if __name__ == "__main__":
    sys.exit(main())
