"""Swarm-style scenario generation: every run draws its own configuration."""

from __future__ import annotations

import numpy as np

from .core import rng_from, stream_seeds
from .env import make_target
from .runner import default_scenario


# preconditioning choices incl. the flow-based map (with the stub back-end a refit costs microseconds)
PRECONDS_WITH_FLOW = (None, "none", "default", "logit", "probit", "affine", "both", "flow")


def pick(rng, options, p=None):
    i = int(rng.choice(len(options), p=p))
    return options[i]


def draw_schedule(rng, allow_fixed=True, allow_cap=True):
    """Schedule options of SMCSampler.sample."""
    sk = {}
    w = np.array([0.3, 0.15, 0.2 if allow_fixed else 0.0, 0.12, 0.13 if allow_cap else 0.0, 0.1 if allow_cap else 0.0])
    mode = pick(rng, ["adaptive", "adaptive_ramp", "fixed", "adaptive_min_step", "adaptive_cap", "adaptive_min_step_cap"], p=w / w.sum())
    if mode == "fixed":
        sk["adaptive"] = False
        sk["n_steps"] = int(rng.integers(1, 9))
    else:
        sk["adaptive"] = True
        if mode == "adaptive_ramp":
            lo = float(np.round(rng.uniform(0.3, 0.6), 3))
            hi = float(np.round(rng.uniform(lo + 0.05, 0.95), 3))
            sk["target_efficiency"] = [lo, hi]
            sk["target_efficiency_rate"] = float(pick(rng, [0.5, 1.0, 2.0]))
        else:
            sk["target_efficiency"] = float(np.round(rng.uniform(0.3, 0.9), 3))
        if mode == "adaptive_min_step":
            sk["min_step"] = float(pick(rng, [0.05, 0.1, 0.25, 0.5]))
        if mode == "adaptive_cap":
            sk["max_n_steps"] = int(rng.integers(2, 8))
        if mode == "adaptive_min_step_cap":
            # an explicit small floor switches the adaptive floor off: the cap can be hit with beta still below 1
            sk["min_step"] = float(pick(rng, [0.002, 0.01, 0.05]))
            sk["max_n_steps"] = int(rng.integers(2, 5))
            sk["target_efficiency"] = float(np.round(rng.uniform(0.7, 0.95), 3))
    return sk, mode


def draw_smc_scenario(
    seed: int,
    *,
    kinds=("gauss_box", "hug", "periodic", "bimodal"),
    dims=(1, 2, 3),
    xps=("numpy",),
    dtypes=(None,),
    particles=(16, 48),
    kernel_steps=(1, 3),
    checkpoint_modes=("path", "auto", "callback"),
    cadences=(1, 2, 3),
    preconds=(None, "none", "default", "logit", "probit", "affine", "both"),
    n_final=("none", "smaller", "larger"),
    rng_routes=("ctor", "none"),
    schedule=True,
    allow_cap=True,
    sampler="smc",
    flow_kinds=("latent", "native"),
    train_shift=(0.5, 2.0),
    hard=False,
    cut_prob=0.25,
    offset_prob=0.0,
    reuse_prob=0.0,
    int_bounds_prob=0.0,
):
    rng = rng_from(seed)
    kind = pick(rng, list(kinds))
    d = int(pick(rng, list(dims)))
    t = make_target(kind, d, rng)
    n = int(rng.integers(particles[0], particles[1] + 1))
    sk = {"sampler_kwargs": {"n_steps": int(rng.integers(kernel_steps[0], kernel_steps[1] + 1))}}
    mode = "adaptive"
    if schedule:
        s2, mode = draw_schedule(rng, allow_cap=allow_cap)
        sk.update(s2)
    nf = pick(rng, list(n_final))
    if nf == "smaller":
        sk["n_final_samples"] = max(4, n // 2)
    elif nf == "larger":
        sk["n_final_samples"] = n + int(rng.integers(3, 20))
    if nf != "none" and sampler == "smc" and rng.integers(2) == 0:
        # a separate kernel length for the final enlargement (a sampler_kwargs option the loop pops)
        sk["sampler_kwargs"]["n_final_steps"] = int(sk["sampler_kwargs"]["n_steps"]) + int(rng.integers(1, 3))
    pc = pick(rng, list(preconds))
    precond, pkw = None, None
    if pc in (None, "none", "default", "flow"):
        precond = pc
    else:
        precond = "default"
        pkw = {
            "logit": {"bounded_to_unbounded": True, "bounded_transform": "logit"},
            "probit": {"bounded_to_unbounded": True, "bounded_transform": "probit"},
            "affine": {"affine_transform": True},
            "both": {"bounded_to_unbounded": True, "bounded_transform": pick(rng, ["logit", "probit"]),
                     "affine_transform": True},
        }[pc]
    fk = pick(rng, list(flow_kinds))
    xp = pick(rng, list(xps))
    scn = default_scenario(
        t,
        n_samples=n,
        sampler=sampler,
        sample_kwargs=sk,
        xp=xp,
        dtype=pick(rng, list(dtypes)),
        preconditioning=precond,
        preconditioning_kwargs=pkw,
        bounded_transform=pick(rng, ["logit", "probit"]),
        bounded_to_unbounded=bool(rng.integers(2)) if fk == "latent" else False,
        flow={"kind": fk, "alpha": float(pick(rng, [0.0, 0.2])), "inflate": float(rng.uniform(1.3, 2.0)),
              "seed": int(rng.integers(1 << 30))},
        train={"n": 200, "shift": float(rng.uniform(*train_shift)) * float(pick(rng, [-1, 1])),
               "widen": float(rng.uniform(1.0, 1.6))},
        checkpoint={"mode": pick(rng, list(checkpoint_modes)), "every": int(pick(rng, list(cadences)))},
        rng_route=pick(rng, list(rng_routes)),
        seeds={"rng": int(rng.integers(1 << 30)), "entropy": int(rng.integers(1 << 30)),
               "train": int(rng.integers(1 << 30)), "torch": int(rng.integers(1 << 30))},
    )
    if rng.uniform() < cut_prob:
        # a likelihood with a hard cut INSIDE the prior support (the documented recipe returns -inf for invalid points):
        # part of the initial population then carries zero incremental weight
        j = int(rng.integers(t.dims))
        if t.factor[j] != "vm":
            scn["target"]["like_cut"] = [j, float(t.lower[j] + (t.upper[j] - t.lower[j]) * rng.uniform(0.3, 0.5))]
    if hard:
        # a proposal well off the posterior and a demanding ESS target: more tempering iterations, hence more
        # checkpoints and more distinct durable states per run
        scn["train"]["shift"] = float(rng.uniform(2.0, 3.5)) * float(pick(rng, [-1, 1]))
        scn["flow"]["inflate"] = float(rng.uniform(1.0, 1.3))
        if sk.get("adaptive", True) and not isinstance(sk.get("target_efficiency"), list):
            sk["target_efficiency"] = float(np.round(rng.uniform(0.6, 0.9), 3))
    if offset_prob:
        # a likelihood carrying a large common constant (thousands of data points do that): every incremental log-weight
        # is shifted by (beta_new - beta_old) * c, far outside the range of exp() -- nothing the sampler reports except
        # the evidence itself may depend on it.  Drawn from its own stream so that the other choices stay what they were.
        r2 = rng_from((int(seed) ^ 0x0FF5E7) % (1 << 62))
        if r2.uniform() < offset_prob:
            scn["target"]["c"] = float(pick(r2, [-2800.0, -900.0, 1500.0, 4000.0]))
            scn["_offset"] = True
    if int_bounds_prob:
        # prior bounds written as integer literals (non-periodic dimensions): widen each bound outward to the next integer
        r4 = rng_from((int(seed) ^ 0x1B0D5) % (1 << 62))
        if r4.uniform() < int_bounds_prob:
            import math as _math

            tg = scn["target"]
            for j in range(tg["dims"]):
                if tg["factor"][j] != "vm":
                    tg["lower"][j] = int(_math.floor(tg["lower"][j]))
                    tg["upper"][j] = int(_math.ceil(tg["upper"][j]))
            scn["_int_bounds"] = True
    if reuse_prob and scn["checkpoint"]["mode"] == "none" and sampler == "smc":
        # ONE sampler object serves two fresh sample() calls (Aspire.init_sampler, then sample twice): whatever the first
        # call leaves on the object must not leak into what the second one records and returns
        r3 = rng_from((int(seed) ^ 0x2E05E) % (1 << 62))
        if r3.uniform() < reuse_prob:
            s1, _m1 = draw_schedule(r3, allow_cap=allow_cap)
            s1["sampler_kwargs"] = {"n_steps": 1}
            if r3.integers(2) == 0:
                scn["api"] = "sampler"
                scn["rng_route"] = "sample" if scn["rng_route"] != "none" else "none"
                scn["first_call"] = s1
                scn["_reused_sampler"] = True
            else:
                # ... or ONE Aspire instance serves two sample_posterior calls with the same sampler type
                scn["aspire_first_call"] = s1
                scn["_reused_aspire"] = True
    scn["_schedule_mode"] = mode
    scn["_precond"] = pc
    return scn
