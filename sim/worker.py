"""Fresh-interpreter worker: ``python -m sim.worker <module> <function>`` reads a
JSON argument on stdin and prints the JSON result on the last stdout line."""

import importlib
import json
import sys


def main():
    import sim

    sim.pin_to_one_cpu()

    modname, fn = sys.argv[1], sys.argv[2]
    arg = json.loads(sys.stdin.read())
    mod = importlib.import_module(modname)
    from sim.harness import _reach_start, _reach_stop

    cov = _reach_start()
    try:
        out = getattr(mod, fn)(arg)
    finally:
        _reach_stop(cov)
    sys.stdout.write("\n@@RESULT@@" + json.dumps(out) + "\n")


if __name__ == "__main__":
    main()
