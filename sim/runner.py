"""Run engine: scenario -> one simulated aspire "process" -> Result.

A *process* is one ``Aspire`` instance living inside a harness that owns every
party it talks to: model callables, proposal, kernel package, random sources,
entropy, pool and checkpoint file.  It can be killed at any model-seam call;
afterwards only durable state (the file, or what a callback received) is
handed to the next process.
"""

from __future__ import annotations

import contextlib
import copy
import os
import pickle
import traceback
from dataclasses import dataclass, field

import numpy as np

from . import core
from .core import (
    HarnessError,
    SimInterrupt,
    SimModelError,
    SimStop,
    Trace,
    ahash,
    entropy_seam,
    rng_from,
    to_np,
)
from .env import Model, SimLikelihood, SimPrior, Target
from .rng import make_generator


# ----------------------------------------------------------------------------
# namespaces
# ----------------------------------------------------------------------------
def xp_of(name):
    if name is None:
        return None
    if name == "numpy":
        import array_api_compat.numpy as xp

        return xp
    if name == "torch":
        import array_api_compat.torch as xp

        return xp
    if name == "jax":
        import jax

        jax.config.update("jax_enable_x64", True)
        import jax.numpy as xp

        return xp
    raise ValueError(name)


def xp_name(xp):
    n = getattr(xp, "__name__", str(xp))
    for k in ("torch", "jax", "numpy"):
        if k in n:
            return k
    return n


def native_dtype(xpname, dtype):
    """A scenario's dtype spelling -> what is handed to aspire."""
    if dtype is None:
        return None
    if isinstance(dtype, str) and dtype.startswith("native:"):
        name = dtype.split(":", 1)[1]
        if xpname == "torch":
            import torch

            return getattr(torch, name)
        if xpname == "jax":
            import jax.numpy as jnp

            return jnp.dtype(name)
        return np.dtype(name)
    return dtype


def dtype_bits(xpname, dtype):
    """Float width a run is expected to use."""
    if dtype is None:
        return 32 if xpname == "torch" else 64
    return 32 if "32" in str(dtype) else 64


# ----------------------------------------------------------------------------
# scenario (a plain JSON-able dict)
# ----------------------------------------------------------------------------
def default_scenario(target: Target, **over) -> dict:
    scn = {
        "target": target.to_dict(),
        "flow": {
            "backend": "simflow",
            "kind": "latent",
            "alpha": 0.0,
            "inflate": 1.5,
            "seed": 11,
        },
        "bounded_to_unbounded": True,
        "bounded_transform": "logit",
        "train": {"n": 300, "shift": 0.0, "widen": 1.0},
        "xp": "numpy",
        "dtype": None,
        "sampler": "smc",
        "api": "aspire",
        "n_samples": 32,
        "sample_kwargs": {"sampler_kwargs": {"n_steps": 2}},
        "preconditioning": None,
        "preconditioning_kwargs": None,
        "periodic": True,
        "checkpoint": {"mode": "none", "every": 1},
        "rng_route": "ctor",
        "xp_out": None,
        "kernel": {"scale_mode": "population", "scale": 0.5},
        "seeds": {"rng": 1, "entropy": 2, "train": 3, "torch": 4},
        "return_numpy": False,
    }
    for k, v in over.items():
        if isinstance(v, dict) and isinstance(scn.get(k), dict) and k in ("flow", "train", "checkpoint", "seeds", "kernel"):
            scn[k] = {**scn[k], **v}
        else:
            scn[k] = v
    return scn


def training_samples(scn):
    t = Target.from_dict(scn["target"])
    tr = scn["train"]
    rng = rng_from(scn["seeds"]["train"])
    mean, var = t.moments()
    sd = np.sqrt(var)
    for i in range(t.dims):
        if t.factor[i] == "vm":
            mean[i] = t.lower[i] + (t.mu[i] - t.lower[i]) % (2 * np.pi)
            sd[i] = 1.0 / np.sqrt(t.kappa[i])
    lo = np.asarray(t.lower)
    hi = np.asarray(t.upper)
    w = hi - lo
    sd = np.maximum(sd, 1e-3 * w) if t.kind != "peaked" else np.maximum(sd, tr.get("min_sd", 1e-9) * w)
    x = mean + tr["shift"] * sd + tr["widen"] * sd * rng.normal(size=(tr["n"], t.dims))
    if tr.get("peak_train_sd") is not None:
        x = mean + tr["peak_train_sd"] * w * rng.normal(size=(tr["n"], t.dims))
    x = np.clip(x, lo + 1e-3 * w, hi - 1e-3 * w)
    return x


# ----------------------------------------------------------------------------
# kernel seam
# ----------------------------------------------------------------------------
class DuckGenerator:
    """Generator-like (choice / normal / uniform / integers / bit_generator ...) without being a ``numpy.random.Generator``."""

    def __init__(self, inner):
        object.__setattr__(self, "_inner", inner)

    def __getattr__(self, name):
        return getattr(object.__getattribute__(self, "_inner"), name)

    def __setattr__(self, name, value):
        setattr(object.__getattribute__(self, "_inner"), name, value)


class KernelSeam:
    """Installed as ``minipcn.SEAM`` / ``emcee.SEAM`` for one process."""

    def __init__(self, trace: Trace, model: Model):
        self.trace = trace
        self.model = model
        self.n_kernels = 0
        self.record = False  # keep (z, value, x, lp, ll, beta) per eval (C05)
        self.evals: list = []
        self.starts: list = []
        self.probe_fn = None  # fn(kernel_index, z0_np) -> list of probe arrays
        self._last = {}
        model.listeners.append(self._model_listener)

    def _model_listener(self, kind, samples, val):
        if self.record:
            self._last[kind] = (to_np(samples.x).copy(), np.asarray(val).copy())
            if kind == "prior":
                self._last["log_q"] = (
                    None if getattr(samples, "log_q", None) is None else to_np(samples.log_q).copy()
                )

    @staticmethod
    def _beta(kernel):
        fn = getattr(kernel, "log_prob_fn", None)
        kw = getattr(fn, "keywords", None)
        if kw and "beta" in kw:
            return kw["beta"]
        args = getattr(kernel, "args", None)
        if args:
            return args[0]
        return None

    def kernel_start(self, kernel, z0, n_steps):
        self.n_kernels += 1
        beta = self._beta(kernel)
        self.trace.phase = f"kernel({self.n_kernels})"
        self.trace.log(
            "kernel.start",
            i=self.n_kernels,
            beta=None if beta is None else float(beta),
            z0=ahash(z0),
            n_steps=int(n_steps),
        )
        self.starts.append(
            {"i": self.n_kernels, "beta": beta, "z0": to_np(z0).copy(), "n_steps": int(n_steps),
             "z0_type": type(z0).__module__, "z0_dtype": str(z0.dtype)}
        )

    def probes(self, kernel, z_np):
        if self.probe_fn is None:
            return []
        return self.probe_fn(self.n_kernels, z_np)

    def kernel_eval(self, kernel, z, val, kind, mutated=False):
        self.trace.log("kernel.eval", i=self.n_kernels, n=int(len(z)), kind=kind, mutated=bool(mutated))
        if mutated:
            self.n_mutated = getattr(self, "n_mutated", 0) + 1
        if self.record:
            self.evals.append(
                {
                    "i": self.n_kernels,
                    "kind": kind,
                    "beta": self._beta(kernel),
                    "z": to_np(z).copy(),
                    "val": to_np(val).copy(),
                    "val_type": type(val).__module__,
                    "mutated": bool(mutated),
                    "prior": self._last.get("prior"),
                    "like": self._last.get("like"),
                    "log_q": self._last.get("log_q"),
                }
            )
            self._last = {}

    def kernel_end(self, kernel, z_last, hist):
        self.trace.phase = f"post_mutation({self.n_kernels})"
        self.trace.log(
            "kernel.end",
            i=self.n_kernels,
            z=ahash(z_last),
            acc=[float(a) for a in getattr(hist, "acceptance_rate", [])],
        )


def _install_seam(seam, kernel_cfg):
    import emcee
    import minipcn

    prev = (minipcn.SEAM, dict(minipcn.CONFIG), emcee.SEAM)
    minipcn.SEAM = seam
    emcee.SEAM = seam
    minipcn.CONFIG.update(kernel_cfg or {})
    return prev


def _restore_seam(prev):
    import emcee
    import minipcn

    minipcn.SEAM = prev[0]
    minipcn.CONFIG.clear()
    minipcn.CONFIG.update(prev[1])
    emcee.SEAM = prev[2]


# ----------------------------------------------------------------------------
# result of one process
# ----------------------------------------------------------------------------
@dataclass
class Result:
    status: str = "ok"  # ok | crashed | stopped | error
    error: str | None = None
    error_type: str | None = None
    tb: str | None = None
    samples: object = None
    history: object = None
    returned_history: object = None
    sampler: object = None
    aspire: object = None
    trace: Trace | None = None
    model: Model | None = None
    seam: KernelSeam | None = None
    payloads: list = field(default_factory=list)  # (iteration, beta, bytes) seen by callback / poll
    last_checkpoint_bytes: bytes | None = None
    file: str | None = None
    entropy_requests: int = 0
    user_rng_draws: int = 0
    user_rng: object = None
    n_like_reported: int | None = None
    flow_fingerprint: str | None = None
    file_audit_failures: list = field(default_factory=list)
    live_states: list = field(default_factory=list)

    def summary(self):
        """Everything observable about the finished run, for digests/equality."""
        out = {"status": self.status}
        s = self.samples
        if s is not None:
            out["x"] = to_np(s.x)
            for k in ("log_likelihood", "log_prior", "log_q", "log_w", "weights"):
                v = getattr(s, k, None)
                out[k] = None if v is None else to_np(v)
            for k in ("log_evidence", "log_evidence_error"):
                v = getattr(s, k, None)
                out[k] = None if v is None else float(to_np(v))
        h = self.history
        if h is not None and hasattr(h, "beta"):
            for k in (
                "beta ess ess_target eff_target log_norm_ratio log_norm_ratio_var mcmc_acceptance"
            ).split():
                out["h." + k] = [float(to_np(v)) for v in getattr(h, k)]
            out["h.n_pop"] = len(h.sample_history)
            for i, p in enumerate(h.sample_history):
                out[f"h.pop{i}"] = {
                    "x": to_np(p.x),
                    "ll": to_np(p.log_likelihood),
                    "lp": to_np(p.log_prior),
                    "lq": to_np(p.log_q),
                    "beta": None if p.beta is None else float(p.beta),
                }
        return out


def _samples_summary(p):
    out = {"cls": type(p).__name__, "n": len(p.x)}
    for k in ("x", "log_likelihood", "log_prior", "log_q"):
        v = getattr(p, k, None)
        out[k] = None if v is None else to_np(v)
    for k in ("beta", "log_evidence", "log_evidence_error"):
        v = getattr(p, k, None)
        out[k] = None if v is None else float(to_np(v))
    out["xp"] = xp_name(p.xp)
    out["dtype"] = str(p.dtype)
    return out


def payload_summary(blob: bytes) -> dict:
    """Semantic content of a checkpoint payload (pickled torch tensors are not
    byte-stable across processes, so cross-process comparisons use this)."""
    st = pickle.loads(blob)
    out = {k: st.get(k) for k in ("sampler", "iteration", "meta", "parameters", "config", "rng_state", "sampler_kwargs")}
    out["samples"] = _samples_summary(st["samples"])
    h = st.get("history")
    if h is not None:
        hs = {}
        for k in "beta ess ess_target eff_target log_norm_ratio log_norm_ratio_var mcmc_acceptance".split():
            hs[k] = [float(to_np(v)) for v in getattr(h, k)]
        hs["pops"] = [_samples_summary(p) for p in h.sample_history]
        out["history"] = hs
    return out


def payload_digest(blob: bytes | None) -> str | None:
    return None if blob is None else core.digest_of(payload_summary(blob))


class FileSeam:
    """Storage seam: observes every writable close of the run's HDF5 file (the
    instant a checkpoint write becomes durable) by wrapping ``h5py.File.close``
    in the simulator process only."""

    current = None
    _orig_close = None

    def __init__(self, path, on_write):
        self.path = os.path.abspath(path)
        self.on_write = on_write
        self.last = None
        self.busy = False

    @classmethod
    def install(cls, seam):
        import h5py

        if cls._orig_close is None:
            cls._orig_close = h5py.File.close

            def _close(self_):
                try:
                    name = os.path.abspath(self_.filename) if self_.id.valid else None
                    mode = self_.mode if name else None
                except Exception:
                    name, mode = None, None
                cls._orig_close(self_)
                cur = cls.current
                if cur is not None and not cur.busy and name == cur.path and mode not in (None, "r"):
                    cur.busy = True
                    try:
                        fb = read_file_checkpoint(cur.path)
                        if fb is not None and fb != cur.last:
                            cur.last = fb
                            cur.on_write(fb)
                    finally:
                        cur.busy = False

            h5py.File.close = _close
        prev = cls.current
        cls.current = seam
        return prev

    @classmethod
    def restore(cls, prev):
        cls.current = prev


def read_file_checkpoint(path) -> bytes | None:
    """The bytes of /checkpoint/state in a file, or None (plain h5py)."""
    import h5py

    if not os.path.exists(path):
        return None
    with h5py.File(path, "r") as f:
        if "checkpoint" in f and "state" in f["checkpoint"]:
            return f["checkpoint"]["state"][...].tobytes()
    return None


# ----------------------------------------------------------------------------
# one process
# ----------------------------------------------------------------------------
def aspire_kwargs(scn, model):
    t = model.target
    fl = dict(scn["flow"])
    backend = fl.pop("backend")
    kw = dict(
        log_likelihood=SimLikelihood(model),
        log_prior=SimPrior(model),
        dims=t.dims,
        parameters=t.parameters,
        prior_bounds=t.prior_bounds,
        bounded_to_unbounded=scn["bounded_to_unbounded"],
        bounded_transform=scn["bounded_transform"],
        flow_backend=backend,
        xp=xp_of(scn["xp"]),
        dtype=native_dtype(scn["xp"], scn["dtype"]),
    )
    if scn.get("periodic", True) and t.periodic_parameters:
        kw["periodic_parameters"] = t.periodic_parameters
    if backend == "simflow":
        if fl.get("alpha", 0) > 0:
            fl["box"] = [[lo, hi] for lo, hi in zip(t.lower, t.upper)]
        kw.update(fl)
    elif backend == "flowjax":
        import jax

        if "key_seed" in fl:
            fl["key"] = jax.random.key(int(fl.pop("key_seed")))
        kw.update(fl)
    else:
        kw.update(fl)
    return kw


def run_process(
    scn: dict,
    workdir: str,
    *,
    crash: tuple | None = None,  # (seam, k, kind)
    resume: tuple | None = None,  # (route, payload) route in bytes|dict|path|resume_from_file
    stop_after: int | None = None,
    audit_file: bool = False,
    initial_file_payload: bytes | None = None,
    record_kernel: bool = False,
    probe_fn=None,
    choice_hook=None,
    on_choice=None,
    proc_no: int = 0,
    fresh_file: bool = False,
    pool=None,
    extra_sample_kwargs: dict | None = None,
    before_sample=None,
) -> Result:
    from aspire import Aspire
    from aspire.samples import Samples

    res = Result()
    trace = res.trace = Trace()
    trace.log("proc", no=proc_no, resume=None if resume is None else resume[0])
    model = res.model = Model(Target.from_dict(scn["target"]), trace)
    model.return_numpy = bool(scn.get("return_numpy", False))
    if crash is not None:
        seam_name, k, kind = crash
        if seam_name == "like":
            model.crash_like_at = int(k)
        else:
            model.crash_prior_at = int(k)
        model.crash_kind = kind
    model.stop_after_like_calls = stop_after

    file_path = os.path.join(workdir, "run.h5")
    res.file = file_path
    if fresh_file and os.path.exists(file_path):
        os.remove(file_path)

    seam = res.seam = KernelSeam(trace, model)
    seam.record = record_kernel
    seam.probe_fn = probe_fn
    prev_seam = _install_seam(seam, scn.get("kernel"))

    def _on_file_write(fb):
        st = pickle.loads(fb)
        res.payloads.append((st.get("iteration"), (st.get("meta") or {}).get("beta"), fb))
        trace.log(
            "ckpt",
            via="file",
            iteration=st.get("iteration"),
            beta=(st.get("meta") or {}).get("beta"),
            nbytes=len(fb),
            sem=payload_digest(fb)[:16],
        )

    fseam = FileSeam(file_path, _on_file_write)
    fseam.last = initial_file_payload
    prev_fseam = FileSeam.install(fseam if scn["checkpoint"]["mode"] in ("path", "auto") else None)

    if scn["xp"] == "torch" or scn["flow"]["backend"] == "zuko":
        import torch

        torch.manual_seed(int(scn["seeds"]["torch"]))
        torch.set_num_threads(1)
    if scn["xp"] == "jax" or scn["flow"]["backend"] == "flowjax":
        import jax

        jax.config.update("jax_enable_x64", True)

    rng_route = scn.get("rng_route", "ctor")
    user_rng = None
    if rng_route != "none":
        user_rng = make_generator(scn["seeds"]["rng"], trace=trace, name="user", backend=scn["xp"])
        user_rng.choice_hook = choice_hook
        user_rng.on_choice = on_choice
    res.user_rng = user_rng
    # what aspire is handed: the recording Generator itself, or a generator-LIKE object that is not a numpy Generator
    # (what orng.ArrayRNG is for torch / jax users) delegating to it
    rng_arg = DuckGenerator(user_rng) if (user_rng is not None and scn.get("rng_kind") == "duck") else user_rng

    ck = scn["checkpoint"]
    sampler_name = scn["sampler"]
    A = None
    auto_ctx = None
    cur = {"sampler": None}
    try:
        with entropy_seam(int(scn["seeds"]["entropy"]) + 1000 * proc_no, trace) as es:
            try:
                # ---------------- build the instance ----------------
                if resume is not None and resume[0] in ("resume_from_file", "resume_from_file_kwargs"):
                    A = Aspire.resume_from_file(
                        file_path,
                        log_likelihood=SimLikelihood(model),
                        log_prior=SimPrior(model),
                    )
                else:
                    A = Aspire(**aspire_kwargs(scn, model))
                    x_train = training_samples(scn)
                    fit_kw = dict(scn.get("fit_kwargs") or {})
                    if ck["mode"] == "auto" and ck.get("fit_in_context"):
                        # the whole workflow -- fit, then sample -- happens inside ONE auto_checkpoint context
                        auto_ctx = A.auto_checkpoint(file_path, every=ck["every"])
                        auto_ctx.__enter__()
                        trace.log("auto_context_entered_before_fit")
                    A.fit(Samples(x_train, parameters=model.target.parameters, xp=xp_of(scn["xp"])), **fit_kw)
                    if ck.get("refit_after_earlier_call") and resume is not None:
                        # a restarted program that rebuilds its proposal itself (bytes / dict / path routes) repeats the fits the
                        # interrupted one had made: "the same sampling arguments" includes the proposal
                        scn2 = {**scn, "train": {**scn["train"], "shift": -float(scn["train"]["shift"]), "widen": 0.8 * float(scn["train"]["widen"])}}
                        A.fit(Samples(training_samples(scn2), parameters=model.target.parameters, xp=xp_of(scn["xp"])), **fit_kw)
                res.aspire = A
                res.flow_fingerprint = getattr(A.flow, "fingerprint", None)

                # ---------------- checkpoint observation ----------------
                def _cb(state):
                    res.live_states.append(state)  # the very object the callback received (same-process resume route)
                    b = pickle.dumps(state, protocol=pickle.HIGHEST_PROTOCOL)
                    res.payloads.append((state.get("iteration"), state.get("meta", {}).get("beta"), b))
                    trace.log(
                        "ckpt",
                        via="callback",
                        iteration=state.get("iteration"),
                        beta=state.get("meta", {}).get("beta"),
                        nbytes=len(b),
                    )

                def _poll(kind):
                    # in-run audit: at every likelihood call the file holds exactly
                    # (byte for byte) the payload the sampler last acknowledged
                    s = cur["sampler"] or A.sampler
                    if s is None or kind != "like":
                        return
                    b = s.last_checkpoint_bytes
                    fb = read_file_checkpoint(file_path)
                    if b is None and fb is not None and fb == initial_file_payload:
                        # before this run's first checkpoint the file may still hold, intact, the final
                        # payload of an earlier run (or nothing, if a fresh run clears it)
                        return
                    if fb != b:
                        res.file_audit_failures.append(
                            {
                                "at": f"like@{model.n_like_calls}",
                                "file_len": None if fb is None else len(fb),
                                "ack_len": None if b is None else len(b),
                                "stale_suffix": bool(fb is not None and b is not None and len(fb) > len(b) and fb[: len(b)] == b),
                            }
                        )

                if ck["mode"] in ("path", "auto") and audit_file:
                    model.pre_listeners.append(_poll)

                # ---------------- sampling call ----------------
                skw = copy.deepcopy(scn["sample_kwargs"])
                if extra_sample_kwargs:
                    skw.update(extra_sample_kwargs)
                is_smc = sampler_name in ("smc", "minipcn_smc", "emcee_smc")
                call_kw = {}
                if scn["preconditioning"] is not None:
                    call_kw["preconditioning"] = scn["preconditioning"]
                if scn["preconditioning_kwargs"] is not None:
                    call_kw["preconditioning_kwargs"] = copy.deepcopy(scn["preconditioning_kwargs"])
                if sampler_name == "importance":
                    skw = {}
                if is_smc and ck["mode"] == "callback":
                    skw["checkpoint_callback"] = _cb
                    if ck.get("every") is not None:
                        skw["checkpoint_every"] = ck["every"]
                if resume is not None and resume[0] not in ("resume_from_file", "resume_from_file_kwargs"):
                    route, payload = resume
                    if route == "bytes":
                        skw["resume_from"] = payload
                    elif route == "dict":
                        skw["resume_from"] = pickle.loads(payload)
                    elif route == "dict_live":
                        skw["resume_from"] = payload  # a live dictionary kept in memory by the caller
                    elif route == "path":
                        skw["resume_from"] = file_path
                    elif route == "pkl":
                        # the bytes a caller kept (sampler.last_checkpoint_bytes) written to a plain pickle file, resumed by its path
                        pkl = os.path.join(workdir, "resume_payload.pkl")
                        with open(pkl, "wb") as fh:
                            fh.write(payload)
                        skw["resume_from"] = pkl
                    else:
                        raise HarnessError(route)
                if before_sample is not None:
                    before_sample(A, res)

                def _do_sample():
                    if resume is not None and resume[0] == "resume_from_file_kwargs":
                        # the documented constructor takes the sampling arguments itself (resume_kwargs) and the call that
                        # continues the run names nothing but what sample_posterior has as parameters of its own
                        rk = dict(skw)
                        if user_rng is not None and sampler_name not in ("importance", "emcee_smc"):
                            rk["rng"] = rng_arg
                        if ck["mode"] in ("path", "auto"):
                            rk["checkpoint_every"] = ck["every"]
                        A2 = Aspire.resume_from_file(file_path, log_likelihood=SimLikelihood(model), log_prior=SimPrior(model),
                                                     resume_kwargs=rk)
                        res.aspire = A2
                        cur["aspire"] = A2
                        trace.log("resume_kwargs_route", keys=sorted(rk))
                        return A2.sample_posterior(return_history=True, **call_kw)
                    if scn.get("api", "aspire") == "aspire":
                        kw = dict(call_kw)
                        kw.update(skw)
                        if user_rng is not None and sampler_name != "importance" and rng_route in ("top", "ctor"):
                            if sampler_name != "emcee_smc":
                                kw["rng"] = rng_arg
                        if ck["mode"] == "path":
                            kw["checkpoint_path"] = file_path
                            kw["checkpoint_every"] = ck["every"]
                        if scn.get("xp_out"):
                            kw["xp"] = xp_of(scn["xp_out"])
                        kw["return_history"] = True
                        afc = scn.get("aspire_first_call")
                        if afc and resume is None:
                            # the same Aspire instance first serves another sample_posterior call with the same sampler type
                            # (its result is discarded): nothing of it may leak into the judged call
                            kw1 = copy.deepcopy(afc)
                            kw1.update(call_kw)
                            if "rng" in kw:
                                kw1["rng"] = make_generator(int(scn["seeds"]["rng"]) + 17, trace=None, name="first_call")
                            A.sample_posterior(scn["n_samples"], sampler=sampler_name, **kw1)
                            trace.log("first_call_done", via="aspire")
                        if ck["mode"] == "auto":
                            with (A.auto_checkpoint(file_path, every=ck["every"]) if auto_ctx is None else contextlib.nullcontext()):
                                if ck.get("earlier_call_in_context") and resume is None:
                                    # another sampling call in the same context comes first (it leaves its own configuration
                                    # in the file and in the context's bookkeeping)
                                    A.sample_posterior(12, sampler="importance")
                                    trace.log("earlier_call_in_context_done")
                                    if ck.get("refit_after_earlier_call"):
                                        # ... and the proposal is refitted (other data, default overwrite=False) before the
                                        # judged run: the file must end up holding the proposal this run's particles are weighted under
                                        scn2 = {**scn, "train": {**scn["train"], "shift": -float(scn["train"]["shift"]), "widen": 0.8 * float(scn["train"]["widen"])}}
                                        A.fit(Samples(training_samples(scn2), parameters=model.target.parameters, xp=xp_of(scn["xp"])),
                                              **dict(scn.get("fit_kwargs") or {}))
                                        trace.log("refit_in_context_done")
                                return A.sample_posterior(scn["n_samples"], sampler=sampler_name, **kw)
                        return A.sample_posterior(scn["n_samples"], sampler=sampler_name, **kw)
                    if scn.get("api") == "base_smc":
                        # SMCSampler.sample is the only public place where beta_tolerance / store_sample_history can be
                        # given (MiniPCNSMC.sample does not forward them): call the base-class method on a MiniPCNSMC
                        # instance after doing what MiniPCNSMC.sample itself does first
                        from aspire.samplers.smc.base import SMCSampler
                        from aspire.utils import determine_backend_name

                        smp = A.init_sampler(sampler_name, **call_kw, **({"rng": rng_arg} if user_rng is not None else {}))
                        cur["sampler"] = smp
                        kw = dict(skw)
                        sk2 = dict(kw.pop("sampler_kwargs", None) or {})
                        sk2.setdefault("n_steps", 5 * smp.dims)
                        sk2.setdefault("target_acceptance_rate", 0.234)
                        sk2.setdefault("step_fn", "tpcn")
                        smp.sampler_kwargs = sk2
                        smp.backend_str = determine_backend_name(xp=smp.xp)
                        out = super(type(smp), smp).sample(scn["n_samples"], **kw)  # bound SMCSampler.sample
                        return out, smp.history
                    # ---- sampler driven directly (constructor / sample-call rng routes)
                    ctor_kw = {}
                    if user_rng is not None and rng_route == "ctor" and is_smc and sampler_name != "emcee_smc":
                        ctor_kw["rng"] = rng_arg
                    smp = A.init_sampler(sampler_name, **call_kw, **ctor_kw)
                    cur["sampler"] = smp
                    kw = dict(skw)
                    if user_rng is not None and rng_route == "sample" and sampler_name != "importance":
                        if sampler_name != "emcee_smc":
                            kw["rng"] = rng_arg
                    if ck["mode"] == "path":
                        kw["checkpoint_file_path"] = file_path
                        kw["checkpoint_every"] = ck["every"]
                    first = scn.get("first_call")
                    if first:
                        # the same sampler object first serves another sample() call (its result is discarded)
                        fkw = copy.deepcopy(first)
                        if "rng" in kw:
                            fkw["rng"] = make_generator(int(scn["seeds"]["rng"]) + 17, trace=None, name="first_call")
                        smp.sample(scn["n_samples"], **fkw)
                        trace.log("first_call_done", iterations=len(smp.history.beta) if hasattr(smp.history, "beta") else None)
                    out = smp.sample(scn["n_samples"], **kw)
                    return out, smp.history

                if pool is not None:
                    with A.enable_pool(pool, close_pool=False, parallelize_prior=bool(getattr(pool, "parallelize_prior", False))):
                        out = _do_sample()
                else:
                    out = _do_sample()
                res.samples, res.returned_history = out
                res.status = "ok"
            except SimInterrupt as e:
                res.status, res.error = "crashed", str(e)
            except SimModelError as e:
                res.status, res.error = "crashed", str(e)
            except SimStop as e:
                res.status, res.error = "stopped", str(e)
            except HarnessError:
                raise
            except Exception as e:  # unexpected exception from aspire: classified by the check
                res.status = "error"
                res.error = f"{type(e).__name__}: {e}"
                res.error_type = type(e).__name__
                res.tb = traceback.format_exc()
            res.entropy_requests = es.requests
    finally:
        if auto_ctx is not None:
            try:
                auto_ctx.__exit__(None, None, None)
            except Exception:  # noqa: BLE001
                pass
        _restore_seam(prev_seam)
        FileSeam.restore(prev_fseam)

    if cur.get("aspire") is not None:
        A = cur["aspire"]
    smp = None if A is None else (cur["sampler"] or A.sampler)
    res.sampler = smp
    if smp is not None:
        res.history = smp.history
        res.last_checkpoint_bytes = smp.last_checkpoint_bytes
        res.n_like_reported = smp.n_likelihood_evaluations
    if user_rng is not None:
        res.user_rng_draws = user_rng.n_draws
    trace.log("end", status=res.status, error=res.error)
    return res
