"""History / trace oracles shared by the run-engine checks.

Every function returns a list of violation dicts (harness.violation) whose
oracle ids start with the property they belong to (``c18.``, ``c08.`` ...).
"""

from __future__ import annotations

import math
import pickle

import numpy as np

from . import model as M
from .core import to_np
from .harness import violation
from .runner import dtype_bits


def tols(bits):
    if bits == 32:
        return dict(rtol=2e-3, atol=2e-3)
    return dict(rtol=1e-8, atol=1e-9)


def tols_tight(bits):
    if bits == 32:
        return dict(rtol=1e-5, atol=1e-5)
    return dict(rtol=1e-10, atol=1e-10)


def close(a, b, **t):
    a = np.asarray(a, dtype=np.float64)
    b = np.asarray(b, dtype=np.float64)
    if a.shape != b.shape:
        return False
    fa, fb = np.isfinite(a), np.isfinite(b)
    if not np.array_equal(fa, fb):
        return False
    if not np.array_equal(a[~fa], b[~fb], equal_nan=True):
        return False
    return bool(np.allclose(a[fa], b[fb], **t))


def f32_unresolvable(bits, *arrs, scale=1.0, limit=1e-3):
    """In a float32 run, aspire's own arithmetic on log-densities of this
    magnitude has rounding noise above ``limit``: values derived from
    differences (ESS, weights) are then not decidable by a float64 model."""
    if bits != 32:
        return False
    mag = 0.0
    for a in arrs:
        a = np.asarray(a, dtype=np.float64)
        a = a[np.isfinite(a)]
        if a.size:
            mag = max(mag, float(np.max(np.abs(a))))
    return mag * abs(scale) * 1.2e-7 > limit


def arr_bits(a):
    return 32 if "32" in str(getattr(a, "dtype", "")) else 64


def run_bits(res, scn):
    """Float width for *tolerances*: the narrower of what was requested and
    what the stored populations actually use (a run that silently computes in
    float32 is C15's finding; other oracles must not false-alarm on it)."""
    bits = dtype_bits(scn["xp"], scn["dtype"])
    h = res.history
    pops = list(getattr(h, "sample_history", []) or []) if h is not None else []
    for p in pops[:2] + pops[-1:]:
        bits = min(bits, arr_bits(p.x), arr_bits(p.log_likelihood))
    if res.samples is not None:
        bits = min(bits, arr_bits(res.samples.x))
    return bits


def f64(v):
    return np.asarray(to_np(v), dtype=np.float64)


def pop_arrays(p):
    return f64(p.x), f64(p.log_likelihood), f64(p.log_prior), f64(p.log_q)


def scn_where(scn, **extra):
    sk = scn["sample_kwargs"]
    w = {
        "sampler": scn["sampler"],
        "xp": scn["xp"],
        "dtype": scn["dtype"],
        "adaptive": sk.get("adaptive", True),
        "n_steps": sk.get("n_steps"),
        "max_n_steps": sk.get("max_n_steps"),
        "min_step": sk.get("min_step"),
        "n_final_samples": sk.get("n_final_samples"),
        "checkpoint_mode": scn["checkpoint"]["mode"],
        "target_kind": scn["target"]["kind"],
        "preconditioning": scn["preconditioning"],
        "flow_backend": scn["flow"]["backend"],
    }
    w.update(extra)
    return w


# ----------------------------------------------------------------------------
# C18 / C08: the history is a faithful record; evidence is the sum of ratios
# ----------------------------------------------------------------------------
SERIES = "beta ess ess_target eff_target log_norm_ratio log_norm_ratio_var mcmc_acceptance".split()


def check_history(res, scn, *, resumed=False, props=("c18", "c08")):
    out = []
    h = res.history
    if h is None or not hasattr(h, "beta"):
        return out
    bits = run_bits(res, scn)
    t = tols(bits)
    where = scn_where(scn, resumed=bool(resumed))
    n = len(h.beta)
    beta = [float(to_np(b)) for b in h.beta]
    pops = list(h.sample_history)
    if "c18" in props:
        series = SERIES + (["mcmc_autocorr"] if len(getattr(h, "mcmc_autocorr", [])) else [])
        for k in series:
            ln = len(getattr(h, k))
            if ln != n:
                out.append(
                    violation(
                        "c18.series_length",
                        f"history.{k} has {ln} entries for {n} iterations",
                        {**where, "series": k, "excess": ln - n,
                         "n_final_set": scn["sample_kwargs"].get("n_final_samples") is not None},
                        series=k, got=ln, iterations=n,
                    )
                )
        if len(pops) != n + 1:
            out.append(
                violation(
                    "c18.population_count",
                    f"sample_history has {len(pops)} entries for {n} iterations (expected {n + 1})"
                    + (" after a resume" if resumed else ""),
                    where, got=len(pops), iterations=n,
                )
            )
        for i in range(len(pops) - 1):
            a, b = pops[i], pops[i + 1]
            same_obj = a is b
            same_arr = (
                to_np(a.x).shape == to_np(b.x).shape
                and np.array_equal(to_np(a.x), to_np(b.x))
                and np.array_equal(to_np(a.log_q), to_np(b.log_q))
            )
            if same_obj or same_arr:
                acc = float(h.mcmc_acceptance[i]) if i < len(h.mcmc_acceptance) else None
                if same_obj or acc is None or acc > 0 or a.beta == b.beta:
                    out.append(
                        violation(
                            "c18.repeated_population",
                            f"sample_history[{i}] and [{i + 1}] are the same population"
                            + (" after a resume" if resumed else ""),
                            where, index=i, same_object=bool(same_obj),
                        )
                    )
                    break
        if len(pops) == n + 1:
            if pops and pops[0].beta not in (0, 0.0):
                out.append(violation("c18.population_beta", f"initial population carries beta={pops[0].beta}", where))
            for i in range(1, n + 1):
                pb = pops[i].beta
                if pb is None or float(pb) != beta[i - 1]:
                    out.append(
                        violation(
                            "c18.population_beta",
                            f"sample_history[{i}].beta={pb} but history.beta[{i - 1}]={beta[i - 1]}",
                            where, index=i,
                        )
                    )
                    break
    if "c18" in props and len(pops) >= 2:
        # every stored entry is a population of the SMC loop (initial, then after each iteration): they all have the loop's
        # particle number -- the enlarged final set is returned, it is not "the population after an iteration"
        n0 = len(pop_arrays(pops[0])[0])
        for i, p_ in enumerate(pops):
            ni = len(pop_arrays(p_)[0])
            if ni != n0:
                out.append(violation(
                    "c18.population_size",
                    f"stored population {i} has {ni} particles, the loop's populations have {n0}" + (" (resumed run)" if resumed else ""),
                    where, index=i, got=ni, want=n0))
                break
    # value-level recomputation from neighbouring populations
    if len(pops) == n + 1 and all(len(getattr(h, k)) == n for k in SERIES):
        for i in range(1, n + 1):
            x, ll, lp, lq = pop_arrays(pops[i - 1])
            b0 = 0.0 if i == 1 else beta[i - 2]
            b1 = beta[i - 1]
            w = M.incr_logw(ll, lp, lq, b0, b1)
            checks = []
            if f32_unresolvable(bits, ll, lp, lq):
                continue
            if "c18" in props:
                checks += [
                    ("c18.ess_value", "ess", M.ess(w)),
                    ("c18.ess_target_value", "ess_target", M.ess(M.incr_logw(ll, lp, lq, b0, 1.0))),
                    ("c18.ratio_value", "log_norm_ratio", M.log_ratio(w)),
                ]
            if "c08" in props:
                checks += [
                    ("c08.ratio_value", "log_norm_ratio", M.log_ratio(w)),
                    ("c08.ratio_var_value", "log_norm_ratio_var", M.log_ratio_var(w)),
                ]
            for oid, k, want in checks:
                got = float(to_np(getattr(h, k)[i - 1]))
                tt = dict(t)
                if k == "log_norm_ratio_var":
                    tt = dict(rtol=max(t["rtol"], 1e-6) * 5, atol=1e-12 if bits == 64 else 1e-7)
                if not close(got, want, **tt):
                    out.append(
                        violation(
                            oid,
                            f"history.{k}[{i - 1}]={got!r} but recomputation from the stored population "
                            f"{i - 1} with beta {b0}->{b1} gives {want!r}",
                            where, iteration=i, series=k, got=got, want=want,
                        )
                    )
    if "c08" in props and res.samples is not None and n > 0 and res.status == "ok":
        s = res.samples
        le = None if getattr(s, "log_evidence", None) is None else float(to_np(s.log_evidence))
        lee = None if getattr(s, "log_evidence_error", None) is None else float(to_np(s.log_evidence_error))
        ratios = [float(to_np(v)) for v in h.log_norm_ratio]
        vars_ = [float(to_np(v)) for v in h.log_norm_ratio_var]
        want = float(np.sum(np.asarray(ratios)))
        if le is None or not close(le, want, **t):
            out.append(
                violation(
                    "c08.evidence_sum",
                    f"returned log_evidence={le!r} but the recorded per-iteration ratios sum to {want!r}",
                    where, got=le, want=want,
                )
            )
        # ... and by definition: the sum, over the stored populations, of the log mean incremental weight of population i-1
        # for the move to the temperature population i carries.  This does not look at the recorded series at all, so a
        # term that was recorded (and summed) twice, or not at all, shows.  Needs the complete sample history and no final
        # enlargement (which replaces the last stored population's size, not its temperature).
        nf = scn["sample_kwargs"].get("n_final_samples")
        if le is not None and len(pops) >= 2 and (nf is None or nf == scn["n_samples"]) and pops[0].beta in (0, 0.0) \
                and all(p.beta is not None for p in pops):
            terms, ok = [], True
            # the moves of THIS run start at the last stored population that is still at temperature 0 (population 0 in a
            # well-formed history: temperatures strictly increase; anything recorded before it belongs to an earlier call)
            start = max(i for i, p in enumerate(pops) if float(p.beta) == 0.0)
            for i in range(start + 1, len(pops)):
                x, ll, lp, lq = pop_arrays(pops[i - 1])
                b0, b1 = float(pops[i - 1].beta), float(pops[i].beta)
                if not (b1 > b0) or f32_unresolvable(bits, ll, lp, lq):
                    ok = False
                    break
                terms.append(M.log_ratio(M.incr_logw(ll, lp, lq, b0, b1)))
            if ok and terms and float(pops[-1].beta) == beta[-1]:
                want_def = float(np.sum(terms))
                if not close(le, want_def, rtol=t["rtol"] * 4, atol=t["atol"] * 4 * len(terms)):
                    out.append(
                        violation(
                            "c08.evidence_definition",
                            f"returned log_evidence={le!r} but the log mean incremental weights of the {len(terms)} stored "
                            f"population moves sum to {want_def!r}" + (" (resumed run)" if resumed else ""),
                            where, got=le, want=want_def, moves=len(terms), recorded_terms=len(ratios),
                        )
                    )
        wante = math.sqrt(float(np.sum(np.asarray(vars_))))
        if lee is None or not close(lee, wante, **dict(rtol=max(t["rtol"], 1e-6) * 5, atol=1e-9 if bits == 64 else 1e-5)):
            out.append(
                violation(
                    "c08.evidence_error",
                    f"returned log_evidence_error={lee!r} but sqrt(sum of recorded variances)={wante!r}",
                    where, got=lee, want=wante,
                )
            )
    return out


# ----------------------------------------------------------------------------
# C06: schedule shape
# ----------------------------------------------------------------------------
def check_schedule(res, scn):
    out = []
    h = res.history
    if h is None or not hasattr(h, "beta"):
        return out
    sk = scn["sample_kwargs"]
    where = scn_where(scn)
    beta = [float(to_np(b)) for b in h.beta]
    n = len(beta)
    prev = 0.0
    for i, b in enumerate(beta):
        if not (b > prev):
            out.append(
                violation(
                    "c06.not_increasing",
                    f"beta[{i}]={b!r} does not exceed the previous temperature {prev!r}",
                    where, index=i, beta=b, prev=prev,
                )
            )
            break
        if not (0.0 < b <= 1.0):
            out.append(violation("c06.out_of_range", f"beta[{i}]={b!r} outside (0, 1]", where, index=i))
            break
        prev = b
    if res.status == "ok":
        adaptive = sk.get("adaptive", True)
        max_n = sk.get("max_n_steps")
        if n == 0:
            out.append(violation("c06.no_iterations", "run finished without any iteration", where))
        else:
            ended_at_one = beta[-1] == 1.0
            capped = max_n is not None and n == max_n
            if not (ended_at_one or capped):
                out.append(
                    violation(
                        "c06.end_not_one",
                        f"run finished with final temperature {beta[-1]!r} after {n} iterations (cap {max_n})",
                        where, last=beta[-1], n=n,
                    )
                )
            if max_n is not None and n > max_n:
                out.append(violation("c06.cap_exceeded", f"{n} iterations exceed max_n_steps={max_n}", where, n=n))
            if not adaptive and sk.get("n_steps") is not None:
                want = sk["n_steps"]
                if max_n is not None:
                    want = min(want, max_n)
                if n != want:
                    out.append(
                        violation(
                            "c06.exact_n",
                            f"fixed schedule n_steps={sk['n_steps']} performed {n} iterations",
                            where, n=n, want=want,
                        )
                    )
            if adaptive and sk.get("min_step") is not None:
                ms = float(sk["min_step"])
                b0 = 0.0
                for i, b in enumerate(beta):
                    if b - b0 < ms * (1 - 1e-12) and b != 1.0:
                        out.append(
                            violation(
                                "c06.min_step",
                                f"step {i} advanced beta by {b - b0!r} < min_step={ms}",
                                where, index=i, step=b - b0,
                            )
                        )
                        break
                    b0 = b
    return out


# ----------------------------------------------------------------------------
# C07: bisection post-condition
# ----------------------------------------------------------------------------
def check_bisection(res, scn, tol=None):
    """For every adaptive iteration, from the stored population the step was
    computed on: ESS(beta_new)/N >= t_lo - eps and, when beta_new < 1,
    ESS(beta_new + slack)/N < t_hi + eps (ESS is non-increasing in beta, so
    this two-sided test is exactly "largest beta meeting the target, within
    tolerance").  Steps the model's own floor arithmetic shows were forced by
    min_step / the max_n_steps-derived floor are exempt and counted.
    Returns (violations, stats)."""
    out = []
    stats = {"steps": 0, "interior_crossings": 0, "full_steps": 0, "floor_forced": 0, "zero_progress": 0}
    h = res.history
    sk = scn["sample_kwargs"]
    if h is None or not hasattr(h, "beta") or not sk.get("adaptive", True):
        return out, stats
    pops = list(h.sample_history)
    beta = [float(to_np(b)) for b in h.beta]
    n = len(beta)
    if len(pops) < n:
        return out, stats
    bits = run_bits(res, scn)
    eps = 1e-2 if bits == 32 else 1e-7
    if tol is None:
        tol = float(sk.get("beta_tolerance", 1e-6))
    slack = 4 * tol if bits == 64 else max(4 * tol, 1e-4)
    where = scn_where(scn)
    te = sk.get("target_efficiency", 0.5)
    rate = sk.get("target_efficiency_rate", 1.0)
    max_n = sk.get("max_n_steps")
    ms_user = sk.get("min_step")
    if ms_user is not None:
        floor, adaptive_floor = float(ms_user), False
    elif max_n is not None:
        floor, adaptive_floor = 1.0 / max_n, True
    else:
        floor, adaptive_floor = 0.0, False
    for i in range(1, n + 1):
        x, ll, lp, lq = pop_arrays(pops[i - 1])
        b0 = 0.0 if i == 1 else beta[i - 2]
        b1 = beta[i - 1]
        N = len(ll)
        stats["steps"] += 1
        if f32_unresolvable(bits, ll, lp, lq):
            stats["unresolvable_in_float32"] = stats.get("unresolvable_in_float32", 0) + 1
            continue
        # "the target efficiency in force at that step": the step is decided while the run is at beta_prev, so the
        # target in force is the ramp evaluated there (for a scalar target this is the scalar)
        t0 = M.target_eff(te, rate, b0)
        t_lo = t_hi = t0
        # the model's own floor arithmetic: which step would the floor give?
        floor_step = False
        if floor > 0:
            step = b1 - b0
            if adaptive_floor:
                # the floor starts at 1/K and is rescaled every step by
                # (1-b_prev)/(1-b_star) with b_star in [b_prev, b_new]: it is
                # non-decreasing and telescopes to at most (1/K)/(1-b_new).
                # b_star is internal, so bracket instead of reconstructing.
                lo_f = floor * (1 - 1e-6)
                hi_f = floor / max(1.0 - b1, 1e-300) * (1 + 1e-6)
                floor_step = (lo_f <= step <= hi_f) or (b1 == 1.0 and 1.0 - b0 <= hi_f)
            else:
                b_floor = min(1.0, b0 + floor)
                floor_step = abs(b1 - b_floor) <= 1e-9 + (1e-6 if bits == 32 else 0.0)
        if b1 <= b0:
            stats["zero_progress"] += 1
            continue  # C06's business (no progress), not the ESS post-condition
        # "largest beta meeting the target, within the stated tolerance":
        # the chosen beta may exceed the exact root by at most the tolerance
        b_low = max(b0, b1 - slack)
        e_low = M.ess(M.incr_logw(ll, lp, lq, b0, b_low)) / N
        if floor_step and e_low < t_lo - eps:
            stats["floor_forced"] += 1
            continue
        if e_low < t_lo - eps:
            out.append(
                violation(
                    "c07.below_target",
                    f"iteration {i}: ESS(beta={b_low!r})/N={e_low:.6f} is below the target {t_lo:.6f} "
                    f"(move from {b0!r} to {b1!r}); no floor forced this step",
                    where, iteration=i, eff=e_low, target=t_lo, b0=b0, b1=b1,
                )
            )
            continue
        if b1 < 1.0:
            b_up = min(1.0, b1 + slack)
            e_up = M.ess(M.incr_logw(ll, lp, lq, b0, b_up)) / N
            if e_up >= t_hi + eps:
                out.append(
                    violation(
                        "c07.not_maximal",
                        f"iteration {i}: beta={b1!r} was chosen but beta={b_up!r} still has ESS/N={e_up:.6f} "
                        f">= target {t_hi:.6f}",
                        where, iteration=i, eff_up=e_up, target=t_hi, b0=b0, b1=b1,
                    )
                )
            else:
                stats["interior_crossings"] += 1
        else:
            stats["full_steps"] += 1
    return out, stats


# ----------------------------------------------------------------------------
# C10: cached log-densities belong to the coordinates
# ----------------------------------------------------------------------------
def _coherence_one(tag, target, flow, x, ll, lp, lq, bits, where):
    out = []
    t = tols_tight(bits)
    x = f64(x)
    if x.ndim == 1:
        x = x[:, None]
    checks = []
    if lp is not None:
        checks.append(("c10.log_prior", "log_prior", f64(lp), target.log_prior(x)))
    if ll is not None:
        checks.append(("c10.log_likelihood", "log_likelihood", f64(ll), target.log_like(x)))
    if lq is not None and flow is not None:
        dens = flow._log_density(x) if hasattr(flow, "_log_density") else None
        if dens is not None:
            tq = dict(rtol=max(t["rtol"], 1e-9), atol=max(t["atol"], 1e-4 if bits == 32 else 1e-8))
            if bits == 32:
                # log_q of a *drawn* row is computed at the proposal's float64
                # point and the row is then rounded to float32: allow what one
                # float32 ulp of x can move log q (large next to a bound)
                sens = np.zeros(len(x))
                for j in range(x.shape[1]):
                    for sgn in (-1.0, 1.0):
                        xs = x.copy()
                        xs[:, j] = xs[:, j] + sgn * 1.5 * np.spacing(np.abs(xs[:, j]).astype(np.float32)).astype(np.float64)
                        with np.errstate(all="ignore"):
                            dv = np.abs(flow._log_density(xs) - dens)
                        sens = np.maximum(sens, np.where(np.isfinite(dv), dv, np.inf))
                tq = dict(rtol=tq["rtol"], atol=tq["atol"], extra=2.0 * sens)
            checks.append(("c10.log_q", "log_q", f64(lq), dens, tq))
    for c in checks:
        oid, name, got, want = c[:4]
        tt = c[4] if len(c) > 4 else t
        if got.shape != want.shape:
            out.append(
                violation(oid, f"{tag}: {name} has shape {got.shape} for {len(x)} rows", where, population=tag)
            )
            continue
        extra = None
        if "extra" in tt:
            tt = dict(tt)
            extra = tt.pop("extra")
        if extra is not None and got.shape == want.shape:
            fin = np.isfinite(got) & np.isfinite(want)
            okrow = np.where(fin, np.abs(got - want) <= tt["atol"] + tt["rtol"] * np.abs(want) + extra,
                             (got == want) | (np.isnan(got) & np.isnan(want)))
            if np.all(okrow):
                continue
            bad = np.flatnonzero(~okrow)
            i = int(bad[0])
            out.append(
                violation(
                    oid,
                    f"{tag}: stored {name}[{i}]={got[i]!r} but the proposal at row {i} gives {want[i]!r} "
                    f"({len(bad)} of {len(got)} rows differ)",
                    where, population=tag, n_bad=int(len(bad)),
                )
            )
            continue
        if not close(got, want, **tt):
            bad = np.flatnonzero(~np.isclose(got, want, equal_nan=True, **tt))
            i = int(bad[0]) if len(bad) else -1
            out.append(
                violation(
                    oid,
                    f"{tag}: stored {name}[{i}]={got[i] if i >= 0 else None!r} but the user's function at row {i} "
                    f"gives {want[i] if i >= 0 else None!r} ({len(bad)} of {len(got)} rows differ)",
                    where, population=tag, n_bad=int(len(bad)),
                )
            )
    return out


def check_coherence(res, scn, flow=None, include_payloads=True):
    out = []
    target = res.model.target
    flow = flow if flow is not None else (res.aspire.flow if res.aspire is not None else None)
    bits = run_bits(res, scn)
    where = scn_where(scn)
    n_checked = 0
    if res.samples is not None:
        s = res.samples
        out += _coherence_one(
            "returned samples", target, flow, s.x,
            getattr(s, "log_likelihood", None), getattr(s, "log_prior", None), getattr(s, "log_q", None),
            dtype_bits(scn.get("xp_out") or scn["xp"], scn["dtype"]) if scn.get("xp_out") else bits, where,
        )
        n_checked += 1
    h = res.history
    if h is not None and hasattr(h, "sample_history"):
        for i, p in enumerate(h.sample_history):
            out += _coherence_one(f"sample_history[{i}]", target, flow, p.x, p.log_likelihood, p.log_prior, p.log_q, bits, where)
            n_checked += 1
    if include_payloads:
        for it, b, blob in res.payloads:
            st = pickle.loads(blob)
            p = st["samples"]
            out += _coherence_one(
                f"checkpoint(iteration={it})", target, flow, p.x, p.log_likelihood, p.log_prior, p.log_q, bits, where
            )
            n_checked += 1
            hh = st.get("history")
            if hh is not None:
                for i, q in enumerate(hh.sample_history):
                    out += _coherence_one(
                        f"checkpoint(iteration={it}).history[{i}]", target, flow, q.x, q.log_likelihood,
                        q.log_prior, q.log_q, bits, where,
                    )
    return out, n_checked


# ----------------------------------------------------------------------------
# C17: prior before likelihood; evaluations counted
# ----------------------------------------------------------------------------
def check_model_seam(res, scn):
    out = []
    where = scn_where(scn)
    m = res.model
    for f in m.c17_failures[:3]:
        out.append(
            violation(
                "c17.prior_attached",
                f"likelihood call {f['k']} ({f['phase']}): {f['why']}",
                {**where, "phase": f["phase"].split("(")[0]}, **f,
            )
        )
    if res.n_like_reported is not None and res.status in ("ok",):
        if int(res.n_like_reported) != int(m.n_like_points):
            out.append(
                violation(
                    "c17.count",
                    f"n_likelihood_evaluations={res.n_like_reported} but the user's likelihood was asked about "
                    f"{m.n_like_points} points in {m.n_like_calls} calls",
                    where, reported=int(res.n_like_reported), actual=int(m.n_like_points),
                )
            )
    return out
