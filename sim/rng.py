"""SimGenerator: a recording numpy Generator the simulator hands to aspire."""

from __future__ import annotations

import numpy as np

from .core import ahash


LAST_CHOICE_REQUEST: dict = {}


class SimGenerator(np.random.Generator):
    """A ``numpy.random.Generator`` that logs every draw to the trace.

    ``choice_hook(n, size, p) -> idx | None`` lets the simulator decide the
    resampling answer itself (adversarial but valid index vectors); when it
    returns None the underlying PCG64 stream decides.
    ``on_choice(n, size, p, idx)`` is called after every choice (oracle seam).
    """

    def __init__(self, bit_generator=None, *, trace=None, name="user", backend="numpy"):
        super().__init__(bit_generator)
        self.trace = trace
        self.name = name
        self.backend = backend
        self.n_draws = 0
        self.choice_hook = None
        self.on_choice = None

    # -- draws aspire / the fake kernels use --------------------------------
    def choice(self, a, size=None, replace=True, p=None, axis=0, shuffle=True):
        self.n_draws += 1
        # how the draw was asked for (the simulation is single-threaded: the hooks below read it)
        LAST_CHOICE_REQUEST.clear()
        LAST_CHOICE_REQUEST.update(replace=bool(replace), axis=int(axis))
        idx = None
        if self.choice_hook is not None:
            idx = self.choice_hook(a, size, p)
        if idx is None:
            idx = super().choice(a, size=size, replace=replace, p=p, axis=axis, shuffle=shuffle)
        if self.trace is not None:
            self.trace.log(
                "rng.choice",
                who=self.name,
                n=int(a) if np.isscalar(a) else len(a),
                size=None if size is None else int(size),
                replace=bool(replace),
                p=ahash(None if p is None else np.asarray(p)),
                idx=ahash(np.asarray(idx)),
            )
        if self.on_choice is not None:
            self.on_choice(a, size, p, idx)
        return idx

    def normal(self, loc=0.0, scale=1.0, size=None):
        self.n_draws += 1
        out = super().normal(loc, scale, size)
        if self.trace is not None:
            self.trace.log("rng.normal", who=self.name, shape=list(np.shape(out)))
        return out

    def standard_normal(self, size=None, dtype=np.float64, out=None):
        self.n_draws += 1
        res = super().standard_normal(size, dtype, out)
        if self.trace is not None:
            self.trace.log("rng.normal", who=self.name, shape=list(np.shape(res)))
        return res

    def uniform(self, low=0.0, high=1.0, size=None):
        self.n_draws += 1
        out = super().uniform(low, high, size)
        if self.trace is not None:
            self.trace.log("rng.uniform", who=self.name, shape=list(np.shape(out)))
        return out

    def random(self, size=None, dtype=np.float64, out=None):
        self.n_draws += 1
        res = super().random(size, dtype, out)
        if self.trace is not None:
            self.trace.log("rng.uniform", who=self.name, shape=list(np.shape(res)))
        return res


def make_generator(seed: int, trace=None, name="user", backend="numpy") -> SimGenerator:
    return SimGenerator(np.random.PCG64(int(seed)), trace=trace, name=name, backend=backend)
