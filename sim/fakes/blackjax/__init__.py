"""Stand-in for the absent ``blackjax`` package: only what ``aspire.samplers.smc.blackjax`` touches.

``rmh(logdensity_fn, proposal_generator)`` -> object with ``init(position)`` / ``step(key, state)`` (random-walk
Metropolis, written with jax so that the repo's ``vmap`` / ``lax.scan`` driver traces it like the real one).
``nuts`` / ``hmc`` are not provided (the simulator drives the random-walk algorithm only).

Kernel seam: every construction is announced to ``SEAM.kernel_built(logdensity_fn)`` (called eagerly, outside any trace:
the simulator may evaluate the function at concrete points of its choosing), and every start position and every
(position, value) pair the kernel evaluates is exported, concretely, through ``jax.debug.callback`` to
``SEAM.start(z)`` / ``SEAM.evaluated(z, value)``.
"""

from __future__ import annotations

from typing import NamedTuple

__version__ = "0.0-sim"

SEAM = None


class RMHState(NamedTuple):
    position: object
    logdensity: object


class RMHInfo(NamedTuple):
    acceptance_rate: object
    is_accepted: object
    proposal: object


class SamplingAlgorithm(NamedTuple):
    init: object
    step: object


def _start(z):
    if SEAM is not None:
        SEAM.start(z)


def _evaluated(z, v):
    if SEAM is not None:
        SEAM.evaluated(z, v)


def rmh(logdensity_fn, proposal_generator, proposal_logdensity_fn=None):
    import jax
    import jax.numpy as jnp

    if SEAM is not None:
        SEAM.kernel_built(logdensity_fn)

    def _value(z):
        v = logdensity_fn(z)
        jax.debug.callback(_evaluated, z, v)
        return v

    def init(position, rng_key=None):
        jax.debug.callback(_start, position)
        return RMHState(position, _value(position))

    def step(rng_key, state):
        k1, k2 = jax.random.split(rng_key)
        prop = proposal_generator(k1, state.position)
        lp = _value(prop)
        log_u = jnp.log(jax.random.uniform(k2, dtype=jnp.result_type(state.logdensity)))
        delta = lp - state.logdensity
        acc = log_u < jnp.where(jnp.isnan(delta), -jnp.inf, delta)
        new = RMHState(jnp.where(acc, prop, state.position), jnp.where(acc, lp, state.logdensity))
        return new, RMHInfo(jnp.minimum(1.0, jnp.exp(delta)), acc, RMHState(prop, lp))

    return SamplingAlgorithm(init, step)


def _absent(name):
    def f(*a, **k):
        raise NotImplementedError(f"blackjax.{name} is not provided by the simulator's stand-in (random-walk 'rwmh' only)")

    return f


nuts = _absent("nuts")
hmc = _absent("hmc")
