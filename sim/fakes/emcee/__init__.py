"""Fake ``emcee`` for the aspire simulator (the real package is absent here).

Minimal ``EnsembleSampler`` with the surface aspire uses.  The move is a
per-walker random-walk Metropolis step (a valid MCMC kernel); randomness comes
from a generator derived from the simulator's entropy seam, because aspire
passes no generator to emcee.
"""

import math

import numpy as np

from sim.core import EntropySeam

__version__ = "0.0-sim"
SEAM = None


class EnsembleSampler:
    def __init__(self, nwalkers, ndim, log_prob_fn, args=None, kwargs=None,
                 vectorize=False, moves=None, **kw):
        self.nwalkers = nwalkers
        self.ndim = ndim
        self.log_prob_fn = log_prob_fn
        self.args = tuple(args or ())
        self.kwargs = dict(kwargs or {})
        self.vectorize = vectorize
        self.moves = moves
        self._chain = []
        self._acc = np.zeros(nwalkers)
        self._n = 0
        seam = EntropySeam.current
        seed = seam.draw_seed("emcee") if seam is not None else None
        self._rng = np.random.Generator(np.random.PCG64(seed))

    def _lp(self, z, kind):
        before = np.array(z, dtype=np.float64, copy=True)
        if self.vectorize:
            val = self.log_prob_fn(z, *self.args, **self.kwargs)
        else:
            val = np.array([self.log_prob_fn(zi, *self.args, **self.kwargs) for zi in z])
        v = np.asarray(val, dtype=np.float64).reshape(-1)
        if SEAM is not None:
            SEAM.kernel_eval(self, before, val, kind, mutated=not np.array_equal(before, np.asarray(z, dtype=np.float64), equal_nan=True))
        return v

    def run_mcmc(self, initial_state, nsteps, progress=False, **kw):
        z = np.array(initial_state, dtype=np.float64)
        n, d = z.shape
        if SEAM is not None:
            SEAM.kernel_start(self, z, nsteps)
        sd = z.std(axis=0)
        sd = np.where(np.isfinite(sd) & (sd > 0), sd, 1.0)
        scale = 2.38 / math.sqrt(d) * sd
        lp = self._lp(z, "chain0")
        for _ in range(int(nsteps)):
            prop = z + scale * self._rng.normal(size=(n, d))
            lp_prop = self._lp(prop, "chain")
            log_u = np.log(self._rng.uniform(size=n))
            with np.errstate(invalid="ignore"):
                acc = log_u < (lp_prop - lp)
            acc &= np.isfinite(lp_prop)
            z = np.where(acc[:, None], prop, z)
            lp = np.where(acc, lp_prop, lp)
            self._chain.append(z.copy())
            self._acc += acc
            self._n += 1
        return z

    @property
    def acceptance_fraction(self):
        return self._acc / max(self._n, 1)

    def get_autocorr_time(self, quiet=False, discard=0, **kw):
        return np.ones(self.ndim)

    def get_chain(self, flat=False, discard=0, thin=1, **kw):
        c = np.stack(self._chain)[discard::thin]
        if flat:
            return c.reshape(-1, self.ndim)
        return c
