"""Fake ``orng`` for the aspire simulator (the real package is absent here).

Only the surface aspire touches: ``ArrayRNG(backend=...)``.  An unseeded
construction is an *entropy request*: it is served from the simulated run's
own PRNG and logged, so a run stays a pure function of VERIF_SEED.
"""

import numpy as np

from sim.core import EntropySeam
from sim.rng import SimGenerator

__version__ = "0.0-sim"


class ArrayRNG(SimGenerator):
    def __init__(self, backend="numpy", seed=None, **kw):
        seam = EntropySeam.current
        name = "orng"
        if seed is None:
            name = "entropy"
            if seam is None:
                seed = int(np.random.SeedSequence().generate_state(1)[0])
            else:
                seed = seam.draw_seed("orng.ArrayRNG")
        SimGenerator.__init__(
            self,
            np.random.PCG64(int(seed)),
            trace=None if seam is None else seam.trace,
            name=name,
            backend=backend,
        )
