"""Fake ``minipcn`` for the aspire simulator (the real package is absent here).

``Sampler(log_prob_fn, dims, step_fn, rng, target_acceptance_rate, xp)`` with
``.sample(z0, n_steps) -> (chain, history)``: a vectorised random-walk
Metropolis kernel.  It is a *correct* MH kernel that

* draws only from the ``rng`` it is given (``normal`` for proposals,
  ``uniform`` for accept/reject),
* calls the ``log_prob_fn`` aspire built -- this is the kernel seam: a
  simulator-installed ``SEAM`` object sees every batch of points the kernel
  asks about together with the values aspire answers, and may ask about
  extra probe points without affecting the chain.

Kernel arithmetic is float64 numpy; points are handed to ``log_prob_fn`` in
the namespace/dtype of ``z0`` and the chain is returned in that namespace.
"""

import math
from dataclasses import dataclass, field

import numpy as np

__version__ = "0.0-sim"

# Simulator-owned configuration of the stub kernel.
CONFIG = {
    # "population": proposal scale = 2.38/sqrt(d) * std of the start positions
    # "fixed": proposal scale = CONFIG["scale"] (independent of the population)
    "scale_mode": "population",
    "scale": 0.5,
}
SEAM = None  # set by the simulator: object with kernel_start / kernel_eval / probes


def _to_np64(a):
    mod = type(a).__module__
    if mod.startswith("torch"):
        a = a.detach().cpu().numpy()
    return np.asarray(a, dtype=np.float64)


def _like(a_np, ref):
    """numpy float64 -> namespace and dtype of ``ref``."""
    mod = type(ref).__module__
    if mod.startswith("torch"):
        import torch

        return torch.as_tensor(a_np, dtype=ref.dtype, device=ref.device)
    if mod.startswith("jax"):
        import jax.numpy as jnp

        return jnp.asarray(a_np, dtype=ref.dtype)
    return np.asarray(a_np, dtype=np.asarray(ref).dtype)


@dataclass
class KernelHistory:
    acceptance_rate: list = field(default_factory=list)


class Sampler:
    def __init__(
        self,
        log_prob_fn,
        dims,
        step_fn="tpcn",
        rng=None,
        target_acceptance_rate=0.234,
        xp=None,
        **kwargs,
    ):
        self.log_prob_fn = log_prob_fn
        self.dims = dims
        self.step_fn = step_fn
        self.rng = rng if rng is not None else np.random.default_rng()
        self.target_acceptance_rate = target_acceptance_rate
        self.xp = xp

    def _eval(self, z_np, ref, kind):
        # like a real kernel, hand over the array the kernel itself holds (no defensive copy)
        z = _like(z_np, ref)
        before = _to_np64(z).copy()
        val = self.log_prob_fn(z)
        v = _to_np64(val).reshape(-1)
        if SEAM is not None:
            SEAM.kernel_eval(self, before, val, kind, mutated=not np.array_equal(before, _to_np64(z), equal_nan=True))
        return z, v

    def sample(self, z0, n_steps=1, **kwargs):
        ref = z0
        z_np = _to_np64(z0)
        if z_np.ndim == 1:
            z_np = z_np[:, None]
        n, d = z_np.shape
        if SEAM is not None:
            SEAM.kernel_start(self, z0, n_steps)
            for probe in SEAM.probes(self, z_np):
                self._eval(np.asarray(probe, dtype=np.float64), ref, "probe")
        if CONFIG["scale_mode"] == "fixed":
            scale = np.full(d, float(CONFIG["scale"]))
        else:
            sd = z_np.std(axis=0)
            sd = np.where(np.isfinite(sd) & (sd > 0), sd, 1.0)
            scale = 2.38 / math.sqrt(d) * sd
        z, lp = self._eval(z_np, ref, "chain0")
        z_np = _to_np64(z)
        chain = [z]
        hist = KernelHistory()
        for _ in range(int(n_steps)):
            prop_np = z_np + scale * np.asarray(self.rng.normal(size=(n, d)), dtype=np.float64)
            prop, lp_prop = self._eval(prop_np, ref, "chain")
            prop_np = _to_np64(prop)
            log_u = np.log(np.asarray(self.rng.uniform(size=n), dtype=np.float64))
            with np.errstate(invalid="ignore"):
                accept = log_u < (lp_prop - lp)
            accept &= np.isfinite(lp_prop)
            z_np = np.where(accept[:, None], prop_np, z_np)
            lp = np.where(accept, lp_prop, lp)
            chain.append(_like(z_np, ref))
            hist.acceptance_rate.append(float(np.mean(accept)))
        if SEAM is not None:
            SEAM.kernel_end(self, chain[-1], hist)
        mod = type(ref).__module__
        if mod.startswith("torch"):
            import torch

            chain_arr = torch.stack(chain)
        elif mod.startswith("jax"):
            import jax.numpy as jnp

            chain_arr = jnp.stack(chain)
        else:
            chain_arr = np.stack(chain)
        return chain_arr, hist
