"""C14 -- a checkpoint file stays self-consistent under any sequence of operations."""

from ..machines import c14 as machine
from . import machine_common as mc

ID = "C14"
LEVEL = "exploration"
RULE = (
    "operation sequences (length <= 8, shrunk by Hypothesis) from a seeded stateful machine over ONE checkpoint file and up to two "
    "live Aspire 'processes': new process, fit(data A | B, checkpoint_path?, overwrite?), enter/exit (nested) auto_checkpoint, "
    "sample(importance | minipcn SMC | emcee SMC, explicit path | inside the context | no file, optionally crashed at a likelihood "
    "call), and resume-from-file-then-sample as one atomic operation (optionally inside auto_checkpoint, as documented; optionally "
    "continuing with the OTHER SMC sampler, named at resume_from_file or at sample_posterior). Proposals are stub flows "
    "fitted to visibly different data, so 'which proposal' is unmistakable. Semantic oracle after EVERY operation, on the file as it is: "
    "if it holds a checkpoint, (a) the proposal LOADED FROM THE FILE must reproduce the stored log_q of the checkpoint's particles, "
    "(b) the stored configuration must name the sampler class recorded inside the checkpoint; at the end of every sequence (c) "
    "resume_from_file + sample_posterior() on a copy of the file must run and its first population must carry log_q of the proposal it "
    "loaded. evaluations = sequences; non-trivial key = (audit kind, operation after which a checkpoint was audited); "
    "distinct_nontrivial counts distinct keys."
)
ASSUMPTIONS = ["stub proposal/kernel/model; sequences bounded at 8 operations, 2 live instances, 1 file"]
COMPONENTS = {"real": ["Aspire.fit / sample_posterior / auto_checkpoint / resume_from_file / save_config / save_flow", "MiniPCNSMC and EmceeSMC checkpointing",
                       "ImportanceSampler", "AspireFile / HDF5"],
              "stub": ["SimFlow", "minipcn.Sampler", "emcee.EnsembleSampler", "analytic likelihood/prior"], "not_run": ["zuko/flowjax in this check", "blackjax"]}
BUDGET_S = {"quick": 80, "thorough": 1200}


def directed_sequences():
    """Bounded-exhaustive complement to the seeded search: every TWO-RUN history over a small alphabet -- first run (either SMC
    sampler, through a context or an explicit path) to completion, optionally a refit on other data, optionally a rebuild by
    resume_from_file, then a second run (either SMC sampler or importance; fresh, or fresh with the keyword spelt resume_from=None;
    completed or interrupted at its likelihood call 0 / 2 / 4)."""
    out = []
    for ctx in ("auto", "path"):
        for s1 in ("smc", "emcee_smc"):
            for refit in (None, "plain", "path_overwrite"):
                for via_resumed in (False, True):
                    for s2 in ("smc", "emcee_smc", "importance"):
                        for rn in (False, True):
                            for crash in (None, 0, 2, 4):
                                if s2 == "importance" and (rn or crash not in (None, 0)):
                                    continue
                                if via_resumed and refit is not None:
                                    continue  # (the refit here happens BEFORE the rebuild; a refit ON the rebuilt instance is the second block)
                                ops = [["fit", {"proc": 0, "data": "A", "with_path": False, "overwrite": False}]]
                                if ctx == "auto":
                                    ops.append(["enter_auto", {"proc": 0, "every": 1}])
                                ops.append(["sample", {"proc": 0, "sampler": s1, "explicit_path": ctx == "path", "crash_at": None, "resume_none": False}])
                                if refit:
                                    ops.append(["fit", {"proc": 0, "data": "B", "with_path": refit == "path_overwrite", "overwrite": refit == "path_overwrite"}])
                                second = 0
                                if via_resumed:
                                    ops.append(["resume_and_sample", {"in_context": False, "sampler": None, "override_at": "ctor"}])
                                    second = 1
                                ops.append(["sample", {"proc": second, "sampler": s2, "explicit_path": ctx == "path" and not via_resumed,
                                                       "crash_at": crash, "resume_none": rn}])
                                out.append(ops)
    # a refit ON the instance that resume_from_file built, between the rebuild and the next run (eighth round): the checkpoint
    # that instance holds primed was weighted under the proposal the refit replaces
    for ctx in ("auto", "path"):
        for s1 in ("smc", "emcee_smc"):
            for refit in ("plain", "path", "path_overwrite"):
                for s2 in ("smc", "emcee_smc", "importance"):
                    for crash in (None, 0, 2):
                        if s2 == "importance" and crash is not None:
                            continue
                        ops = [["fit", {"proc": 0, "data": "A", "with_path": False, "overwrite": False}]]
                        if ctx == "auto":
                            ops.append(["enter_auto", {"proc": 0, "every": 1}])
                        ops.append(["sample", {"proc": 0, "sampler": s1, "explicit_path": ctx == "path", "crash_at": None, "resume_none": False}])
                        ops.append(["resume_and_sample", {"in_context": False, "sampler": None, "override_at": "ctor"}])
                        ops.append(["fit", {"proc": 1, "data": "B", "with_path": refit != "plain", "overwrite": refit == "path_overwrite"}])
                        ops.append(["sample", {"proc": 1, "sampler": s2, "explicit_path": ctx == "path", "crash_at": crash, "resume_none": False}])
                        out.append(ops)
    return out


def gen_cases(seed, tier):
    cases = mc.gen_cases(ID, seed, tier, n_quick=112, n_thorough=640, ex_quick=60, ex_thorough=150, steps=8)
    directed = [{"run_index": 50000 + i, "ops": ops, "tier": tier, "directed": True} for i, ops in enumerate(directed_sequences())]
    # interleave so that a budget-limited quick run still covers both kinds
    out, di = [], 0
    per = max(1, len(directed) // max(1, len(cases)) + 1)
    for c in cases:
        out.append(c)
        out.extend(directed[di:di + per])
        di += per
    out.extend(directed[di:])
    return out


def run_case(case, workdir):
    return mc.run_case(machine, case, workdir)


def aggregate(outcomes):
    return {"distinct_op_sequences": sum(o.get("distinct_sequences", 0) for o in outcomes)}
