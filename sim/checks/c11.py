"""C11 -- resuming from any checkpoint reproduces the uninterrupted run."""

from __future__ import annotations

import copy

from ..core import digest_of, jsonable, rng_from
from ..crashloop import ROUTES, explore
from ..swarm import PRECONDS_WITH_FLOW, draw_smc_scenario
from .common import COMPONENTS, crash_case, shrink_scenario_candidates

ID = "C11"
LEVEL = "fault_enumeration"
COMPONENTS = {
    "real": COMPONENTS["real"] + ["ZukoFlow (quick + thorough) and FlowJax (thorough): proposal saved into the run file by sample_posterior and reloaded by resume_from_file"],
    "stub": COMPONENTS["stub"],
    "not_run": ["real blackjax (BlackJAXSMC itself runs, on the jax-written random-walk stand-in)", "real minipcn / orng / emcee"],
}
RULE = (
    "case = one swarm-drawn SMC scenario (target x dims x schedule options x cadence x n_final_samples x "
    "preconditioning x checkpoint mode x rng route); the fault-free reference run is crashed at EVERY "
    "likelihood call and EVERY prior call (complete enumeration, alternating SimInterrupt/SimModelError); crash "
    "points are grouped by the durable state they leave; every distinct durable state is resumed through each "
    "route (bytes, dict, path, resume_from_file) in a fresh process and compared bit-for-bit with the reference. "
    "evaluations = processes simulated. A (scenario-cell, route, crash-phase) tuple is non-trivial when the resume "
    "completed from a checkpoint; distinct_nontrivial counts distinct tuples (adaptive, n_final set, mode, cadence, "
    "route, phase, namespace, preconditioning, resumed-at-final)."
)
ASSUMPTIONS = [
    "kernel, proposal and model are simulator stubs; real minipcn/orng adaptation state across a resume is not exercised",
    "crash model = exception leaving sample_posterior at a likelihood/prior call; faults inside an HDF5 call are not injected",
    "emcee_smc is excluded: its random source (global numpy state in real emcee) is not a user-supplied source",
]
BUDGET_S = {"quick": 70, "thorough": 1500}
WANT = ("c11",)


def gen_cases(seed, tier):
    n = 64 if tier == "quick" else 1600
    out = [crash_case(ID, seed, i, tier=tier) for i in range(n)]
    # the same loop with the REAL proposals (flow saved into the run file by sample_posterior, reloaded by resume_from_file)
    real = [("zuko", "torch"), ("zuko", "numpy")] if tier == "quick" else [("zuko", "torch"), ("zuko", "numpy"), ("zuko", "jax")] * 3 + [("flowjax", "jax"), ("flowjax", "numpy"), ("flowjax", "jax")]
    for j, (backend, xp) in enumerate(real):
        out.insert(j, crash_case(ID, seed, 70000 + j, tier=tier, real_flow=backend, xp=xp))
    # preconditioning="flow": the map the kernel moves in is a flow that is refitted at every mutation; what such a refit
    # starts from must not depend on state that only the interrupted process had
    for j in range(1 if tier == "quick" else 6):
        out.insert(2 + j, crash_case(ID, seed, 71000 + j, tier=tier, real_flow="zuko", xp=("torch", "numpy", "jax")[j % 3], flowpre=True))
    # BlackJAXSMC (stand-in random-walk blackjax): its random source is the jax key the caller supplies plus the generator;
    # crash at every eager likelihood call, resume from the last payload the callback received
    from . import c05_blackjax

    bj = c05_blackjax.cases(ID, seed, tier, n_quick=3, n_thorough=48)
    if tier == "quick":
        out[3:3] = bj  # started early: each of these cases is several compiled runs long
        return out
    out[3:3] = bj[:1]
    return out + bj[1:]


def real_flow_scenario(case):
    from ..env import make_target
    from ..runner import default_scenario
    from ..swarm import pick
    from .c20 import FLOWS

    rng = rng_from(case["scenario_seed"])
    kind = pick(rng, ["gauss_box", "hug"])
    # 2 or 3 dimensions by case (above 2 a flowjax proposal carries key-dependent permutation layers that the file must keep)
    t = make_target(kind, 3 if case["run_index"] % 2 else 2, rng)
    fl, fit = FLOWS[case["real_flow"]]
    sk = {"sampler_kwargs": {"n_steps": 1}, "target_efficiency": float(rng.uniform(0.6, 0.85))}
    if rng.integers(2):
        sk["n_final_samples"] = 30
    if rng.integers(3) == 0:
        sk["max_n_steps"] = 8
    scn = default_scenario(t, sampler="smc", sample_kwargs=sk, n_samples=20, xp=case["xp"], fit_kwargs=dict(fit),
                           train={"n": 200, "shift": float(rng.uniform(1.5, 2.5)), "widen": 1.2},
                           preconditioning=pick(rng, [None, "none", "default"]),
                           checkpoint={"mode": pick(rng, ["path", "auto"]), "every": int(pick(rng, [1, 2]))}, rng_route="top",
                           seeds={"rng": int(rng.integers(1 << 30)), "entropy": int(rng.integers(1 << 30)), "train": int(rng.integers(1 << 30)), "torch": int(rng.integers(1 << 30))})
    scn["flow"] = dict(fl)
    scn["_schedule_mode"] = "adaptive"
    if case.get("flowpre"):
        scn["preconditioning"] = "flow"
        scn["preconditioning_kwargs"] = {"fit_kwargs": dict(fit)}
        scn["dtype"] = "float64"
        scn["sample_kwargs"] = {"sampler_kwargs": {"n_steps": 1}, "adaptive": False, "n_steps": 3}
        scn["checkpoint"] = {"mode": "path", "every": 1}
    scn["_precond"] = scn["preconditioning"]
    return scn


def scenario_of(case):
    if "scenario" in case:
        return case["scenario"]
    if case.get("kind") == "blackjax":
        from . import c05_blackjax

        return c05_blackjax.scenario(case)
    if case.get("real_flow"):
        return real_flow_scenario(case)
    quick = case.get("tier") == "quick"
    return draw_smc_scenario(
        case["scenario_seed"],
        xps=("numpy", "numpy", "numpy", "torch", "jax"),
        dtypes=(None, None, "float64", "float32"),
        particles=(12, 32) if quick else (12, 64),
        kernel_steps=(1, 2) if quick else (1, 3),
        hard=bool(case["run_index"] % 2), preconds=PRECONDS_WITH_FLOW,
    )


def run_case(case, workdir):
    scn = scenario_of(case)
    if case.get("kind") == "blackjax":
        from . import c05_blackjax

        return c05_blackjax.judge_resume(case, workdir, scn)
    quick = case.get("tier") == "quick"
    rng = rng_from(case["fault_seed"])
    res = explore(
        scn, workdir, want=WANT, rng=rng,
        routes=case.get("routes") or ROUTES,
        max_states=case.get("max_states", 4 if quick else (2 if case.get("real_flow") == "flowjax" else None)),
        max_crash_points=case.get("max_crash_points", (5 if case.get("flowpre") else 12 if case.get("real_flow") else 60) if quick else
                                  ((8 if case.get("real_flow") == "flowjax" else 40) if case.get("real_flow") else None)),
        double_crash=case.get("double_crash", 0 if quick or case.get("real_flow") == "flowjax" else 1),
    )
    return finish(case, scn, res)


def finish(case, scn, res):
    vs = [v for v in res["violations"] if v["oracle"].split(".")[0] in WANT]
    sample = {
        "scenario": {k: scn[k] for k in ("sampler", "n_samples", "sample_kwargs", "preconditioning",
                                          "preconditioning_kwargs", "checkpoint", "rng_route", "xp", "dtype")},
        "target": {k: scn["target"][k] for k in ("kind", "dims")},
        "reference": res["ref"],
        "crash_points": res["crash_points"],
        "distinct_durable_states": res["states"],
        "resumes": res["resumes"],
    }
    if res["nontrivial_keys"] and scn["flow"]["backend"] != "simflow":
        res["nontrivial_keys"] = [k + [scn["flow"]["backend"]] for k in res["nontrivial_keys"]]
        res["probes"]["real_flow_resumes:" + scn["flow"]["backend"]] = res["resumes"]
    return {
        "violations": vs,
        "aborted": res["aborted"],
        "evaluations": res["evaluations"],
        "events": res["events"],
        "iterations": res["iterations"],
        "faults_fired": res["faults_fired"],
        "probes": {**res["probes"], **{"phase:" + k: v for k, v in res["phases"].items()}},
        "nontrivial_keys": res["nontrivial_keys"],
        "digest": digest_of([res["ref"], [(v["oracle"], v["message"]) for v in vs]]),
        "sample": jsonable(sample),
        "exhaustive_crash_points": bool(res.get("crash_points_exhaustive")),
    }


def aggregate(outcomes):
    return {
        "crash_points_enumerated": sum(o.get("sample", {}).get("crash_points", 0) for o in outcomes if o.get("sample")),
        "distinct_durable_states": sum(o.get("sample", {}).get("distinct_durable_states", 0) for o in outcomes if o.get("sample")),
        "resumed_runs": sum(o.get("sample", {}).get("resumes", 0) for o in outcomes if o.get("sample")),
        "cases_with_every_crash_point_enumerated": sum(1 for o in outcomes if o.get("exhaustive_crash_points")),
    }


def shrink_candidates(case):
    if case.get("kind") == "blackjax":
        return []  # the scenario is already small; the generic shrinkers assume the numpy model
    scn = scenario_of(case)
    base = {k: v for k, v in case.items() if k not in ("scenario",)}
    out = []
    for r in ROUTES:
        if case.get("routes") != [r]:
            out.append({**base, "scenario": scn, "routes": [r], "double_crash": 0})
    if case.get("max_states") != 1:
        out.append({**base, "scenario": scn, "max_states": 1, "double_crash": 0, "routes": case.get("routes")})
    for s in shrink_scenario_candidates(scn):
        out.append({**base, "scenario": s, "routes": case.get("routes"), "max_states": case.get("max_states", 1),
                    "double_crash": 0})
    return out
