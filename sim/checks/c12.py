"""C12 -- an interrupted run always leaves a loadable, current checkpoint file."""

from __future__ import annotations

import copy

from ..core import rng_from
from ..crashloop import explore
from ..swarm import draw_smc_scenario, pick
from . import c11 as _c11
from .common import COMPONENTS, crash_case, shrink_scenario_candidates

ID = "C12"
LEVEL = "fault_enumeration"
RULE = (
    "case = one swarm-drawn SMC scenario that checkpoints to an HDF5 file (explicit checkpoint_path or "
    "auto_checkpoint context; cadence 1-4; n_final_samples none/smaller/larger so payloads grow and shrink; one "
    "third of the cases first complete a LARGER run into the same file so the new run's payloads are shorter than "
    "what the file holds). In the fault-free run the file is re-read at every likelihood call and must equal the last "
    "acknowledged payload byte for byte; checkpoint iterations must equal the cadence arithmetic plus the forced "
    "final write. Then the run is crashed at EVERY likelihood and EVERY prior call: the file must hold exactly the "
    "payload acknowledged before that call (or none), aspire_config and flow must be present, and "
    "Aspire.resume_from_file must load it. evaluations = processes simulated; a (cadence, mode, payload-size "
    "pattern, crash phase) tuple with a checkpoint on disk is non-trivial; distinct_nontrivial counts distinct tuples."
)
ASSUMPTIONS = [
    "crash model = exception (BaseException or RuntimeError) raised at a likelihood/prior call; at those instants aspire "
    "holds the file closed, so exception-crash and kill coincide for the file; torn writes inside an h5py call are not injected",
    "kernel / proposal / model are simulator stubs",
]
BUDGET_S = {"quick": 70, "thorough": 1500}
WANT = ("c12",)


def gen_cases(seed, tier):
    n = 64 if tier == "quick" else 2000
    return [crash_case(ID, seed, i, tier=tier) for i in range(n)]


def scenario_of(case):
    if "scenario" in case:
        return case["scenario"], case.get("pre_run")
    quick = case.get("tier") == "quick"
    scn = draw_smc_scenario(
        case["scenario_seed"],
        checkpoint_modes=("path", "auto"),
        cadences=(1, 2, 3, 4),
        particles=(12, 32) if quick else (12, 64),
        kernel_steps=(1, 2),
        xps=("numpy",) if quick else ("numpy", "numpy", "torch", "jax"),
    )
    rng = rng_from(case["fault_seed"])
    pre = None
    if rng.integers(3) == 0:
        pre = copy.deepcopy(scn)
        pre["n_samples"] = scn["n_samples"] * 2 + 7
        pre["sample_kwargs"].pop("n_final_samples", None)
        pre["checkpoint"]["mode"] = "path"
        pre["seeds"] = {**scn["seeds"], "rng": scn["seeds"]["rng"] + 1}
    return scn, pre


def run_case(case, workdir):
    scn, pre = scenario_of(case)
    quick = case.get("tier") == "quick"
    rng = rng_from(case["fault_seed"] + 1)
    res = explore(
        scn, workdir, want=WANT, rng=rng, routes=(), pre_run=pre,
        max_crash_points=case.get("max_crash_points", 80 if quick else None),
        max_states=0,
    )
    return finish(case, scn, res, pre)


def finish(case, scn, res, pre):
    from ..core import digest_of, jsonable

    vs = [v for v in res["violations"] if v["oracle"].split(".")[0] in WANT]
    ck = scn["checkpoint"]
    sizes = [c[2] for c in (res["ref"] or {}).get("checkpoints", [])]
    pattern = (
        ("grow" if any(b > a for a, b in zip(sizes, sizes[1:])) else "")
        + ("shrink" if any(b < a for a, b in zip(sizes, sizes[1:])) else "")
        + ("+prev_larger" if pre is not None else "")
    )
    keys = [[ck["mode"], ck["every"], pattern, ph] for ph in res["phases"]] if res["states"] else []
    return {
        "violations": vs,
        "aborted": res["aborted"],
        "evaluations": res["evaluations"],
        "events": res["events"],
        "iterations": res["iterations"],
        "faults_fired": res["faults_fired"],
        "probes": {**res["probes"], **{"phase:" + k: v for k, v in res["phases"].items()}},
        "nontrivial_keys": keys,
        "digest": digest_of([res["ref"], [(v["oracle"], v["message"]) for v in vs]]),
        "sample": jsonable({
            "scenario": {k: scn[k] for k in ("n_samples", "sample_kwargs", "checkpoint", "preconditioning")},
            "previous_larger_run_in_file": pre is not None,
            "reference": res["ref"],
            "crash_points": res["crash_points"],
            "distinct_durable_states": res["states"],
        }),
        "exhaustive_crash_points": bool(res.get("crash_points_exhaustive")),
    }


def aggregate(outcomes):
    return {
        "crash_points_enumerated": sum((o.get("sample") or {}).get("crash_points", 0) for o in outcomes),
        "distinct_durable_states": sum((o.get("sample") or {}).get("distinct_durable_states", 0) for o in outcomes),
        "cases_with_every_crash_point_enumerated": sum(1 for o in outcomes if o.get("exhaustive_crash_points")),
    }


def shrink_candidates(case):
    scn, pre = scenario_of(case)
    base = {k: v for k, v in case.items() if k not in ("scenario", "pre_run")}
    out = []
    if pre is not None:
        out.append({**base, "scenario": scn, "pre_run": None})
    for s in shrink_scenario_candidates(scn):
        if s["checkpoint"]["mode"] in ("path", "auto"):
            out.append({**base, "scenario": s, "pre_run": pre})
    return out
