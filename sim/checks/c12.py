"""C12 -- an interrupted run always leaves a loadable, current checkpoint file."""

from __future__ import annotations

import copy

from ..core import rng_from
from ..crashloop import explore
from ..swarm import PRECONDS_WITH_FLOW, draw_smc_scenario, pick
from . import c11 as _c11
from .common import COMPONENTS, crash_case, shrink_scenario_candidates

ID = "C12"
LEVEL = "fault_enumeration"
RULE = (
    "case = one swarm-drawn SMC scenario that checkpoints to an HDF5 file (explicit checkpoint_path or "
    "auto_checkpoint context; cadence 1-4; n_final_samples none/smaller/larger so payloads grow and shrink; one "
    "third of the cases first complete a LARGER run into the same file so the new run's payloads are shorter than "
    "what the file holds). In the fault-free run the file is re-read at every likelihood call and must equal the last "
    "acknowledged payload byte for byte; checkpoint iterations must equal the cadence arithmetic plus the forced "
    "final write. Then the run is crashed at EVERY likelihood and EVERY prior call: the file must hold exactly the "
    "payload acknowledged before that call (or none), aspire_config and flow must be present, and "
    "Aspire.resume_from_file must load it. evaluations = processes simulated; a (cadence, mode, payload-size "
    "pattern, crash phase) tuple with a checkpoint on disk is non-trivial; distinct_nontrivial counts distinct tuples."
)
ASSUMPTIONS = [
    "crash model = exception (BaseException or RuntimeError) raised at a likelihood/prior call; at those instants aspire "
    "holds the file closed, so exception-crash and kill coincide for the file; torn writes inside an h5py call are not injected",
    "kernel / proposal / model are simulator stubs",
]
BUDGET_S = {"quick": 70, "thorough": 1500}
WANT = ("c12",)


def gen_cases(seed, tier):
    n = 112 if tier == "quick" else 2000
    return [crash_case(ID, seed, i, tier=tier) for i in range(n)]


def scenario_of(case):
    if "scenario" in case:
        return case["scenario"], case.get("pre_run")
    quick = case.get("tier") == "quick"
    scn = draw_smc_scenario(
        case["scenario_seed"],
        checkpoint_modes=("path", "auto"),
        cadences=(1, 2, 3, 4),
        particles=(12, 32) if quick else (12, 64),
        kernel_steps=(1, 2),
        xps=("numpy",) if quick else ("numpy", "numpy", "torch", "jax"),
        hard=bool(case["run_index"] % 2), preconds=PRECONDS_WITH_FLOW,
    )
    rng = rng_from(case["fault_seed"])
    if scn["checkpoint"]["mode"] == "auto":
        # the whole workflow inside one context (fit there too), or another sampling call in the context first
        r2 = rng_from(case["fault_seed"] + 5)
        v = int(r2.integers(4))
        if v == 0:
            scn["checkpoint"]["fit_in_context"] = True
        elif v == 1:
            scn["checkpoint"]["earlier_call_in_context"] = True
            if int(r2.integers(2)):
                # ... followed by a refit (default overwrite=False) before the judged run
                scn["checkpoint"]["refit_after_earlier_call"] = True
    pre = None
    if case["run_index"] % 8 == 5:
        # two sampler-level runs of the SAME fixed schedule into one file, with a cadence longer than the run: each writes only
        # its end-of-run checkpoint, and the two payloads have the same pickled length but different content
        scn["api"] = "sampler"
        scn["checkpoint"] = {"mode": "path", "every": 50}
        scn["rng_route"] = "sample"
        scn["sample_kwargs"] = {"sampler_kwargs": dict(scn["sample_kwargs"]["sampler_kwargs"]), "adaptive": False,
                                "n_steps": int(rng_from(case["fault_seed"] + 6).integers(2, 5))}
        scn["sample_kwargs"]["sampler_kwargs"].pop("n_final_steps", None)
        scn["_schedule_mode"] = "fixed+same_size_rerun"
        pre = copy.deepcopy(scn)
        pre["seeds"] = {**scn["seeds"], "rng": scn["seeds"]["rng"] + 1}
        scn["_same_size_rerun"] = True
        return scn, pre
    if case["run_index"] % 8 == 3:
        # the emcee-driven SMC variant writes its checkpoints through the same loop (its own randomness is not restorable,
        # which matters for C11, not for what the file holds after an interruption)
        scn["sampler"] = "emcee_smc"
        sk = scn["sample_kwargs"]
        for k in ("min_step", "max_n_steps"):
            sk.pop(k, None)
        sk["sampler_kwargs"] = {"nsteps": 2, "progress": False}
        scn["rng_route"] = "none"
        scn["_schedule_mode"] = str(scn.get("_schedule_mode")) + "+emcee_smc"
    if rng.integers(3) == 0:
        pre = copy.deepcopy(scn)
        pre["n_samples"] = scn["n_samples"] * 2 + 7
        pre["sample_kwargs"].pop("n_final_samples", None)
        pre["checkpoint"]["mode"] = "path"
        pre["seeds"] = {**scn["seeds"], "rng": scn["seeds"]["rng"] + 1}
    return scn, pre


def run_case(case, workdir):
    scn, pre = scenario_of(case)
    quick = case.get("tier") == "quick"
    rng = rng_from(case["fault_seed"] + 1)
    same = bool(scn.get("_same_size_rerun"))
    res = explore(
        scn, workdir, want=WANT, rng=rng, routes=(), pre_run=pre,
        # (a sampler-level run writes no configuration: the crash / resume_from_file part does not apply to the same-size variant)
        max_crash_points=0 if same else case.get("max_crash_points", 80 if quick else None),
        max_states=case.get("max_states", 1 if quick else 3), second_crash=0 if same else case.get("second_crash", 8 if quick else 40),
    )
    if same and res.get("ref"):
        cks = res["ref"]["checkpoints"]
        res["probes"]["same_size_rerun"] = 1
    out = finish(case, scn, res, pre)
    n_kill = 0 if same else case.get("sigkill", (1 if case["run_index"] % 6 == 0 else 0) if quick else 2)
    if n_kill and not res["aborted"] and "scenario" not in case:
        vs, done = sigkill_sample(scn, workdir, rng_from(case["fault_seed"] + 9), n_kill)
        out["violations"] += vs
        out["evaluations"] += 2 * done
        if done:
            out["faults_fired"]["real_SIGKILL_of_child_process"] = done
    return out


def kill_child(arg):
    """Runs in a child interpreter: the scenario, with a REAL SIGKILL of this process at likelihood call k."""
    import os
    import signal

    from ..runner import run_process

    def before(A, res):
        def pre(kind):
            if kind == "like" and res.model.n_like_calls == arg["k"]:
                os.kill(os.getpid(), signal.SIGKILL)

        res.model.pre_listeners.append(pre)

    run_process(arg["scenario"], arg["workdir"], fresh_file=True, before_sample=before)
    return {"survived": True}


def sigkill_sample(scn, workdir, rng, n):
    """Validates the crash model: after a real SIGKILL at the seam the file must be what the in-process exception
    crash leaves -- the payload acknowledged before that call in the reference run (semantic comparison across processes)."""
    import json
    import os
    import subprocess
    import sys

    from .. import ROOT
    from ..crashloop import _loadable
    from ..harness import violation
    from ..runner import payload_digest, read_file_checkpoint, run_process

    V, done = [], 0
    ref = run_process(scn, workdir, fresh_file=True)
    if ref.status != "ok" or ref.model.n_like_calls < 3:
        return V, 0
    like_seq = [s for s, k, kw in ref.trace.events if k == "like"]
    ck_seq = [s for s, k, kw in ref.trace.events if k == "ckpt"]
    for _ in range(n):
        k = int(rng.integers(1, ref.model.n_like_calls))
        env = dict(os.environ, PYTHONHASHSEED="0", PYTHONPATH=ROOT + os.pathsep + os.environ.get("PYTHONPATH", ""))
        p = subprocess.run([sys.executable, "-m", "sim.worker", "sim.checks.c12", "kill_child"],
                           input=json.dumps({"scenario": scn, "workdir": workdir, "k": k}), capture_output=True, text=True, env=env, cwd=ROOT, timeout=600)
        if p.returncode != -9:
            continue  # the child did not reach call k (should not happen) -- not judged
        done += 1
        n_before = sum(1 for s_ in ck_seq if s_ < like_seq[k])
        expected = ref.payloads[n_before - 1][2] if n_before else None
        f = os.path.join(workdir, "run.h5")
        try:
            durable = read_file_checkpoint(f)
        except Exception as e:  # noqa: BLE001
            V.append(violation("c12.sigkill_file_unreadable", f"after a real SIGKILL at likelihood call {k} the file cannot be opened: {type(e).__name__}: {e}",
                               {"kill": "SIGKILL"}))
            continue
        if payload_digest(durable) != payload_digest(expected):
            V.append(violation("c12.sigkill_file_not_current", f"after a real SIGKILL at likelihood call {k} the file's checkpoint is not the one acknowledged "
                               f"before that call ({None if durable is None else len(durable)} bytes vs {None if expected is None else len(expected)})", {"kill": "SIGKILL"}))
        err = _loadable(f, scn)
        if err is not None:
            V.append(violation("c12.sigkill_not_loadable", f"after a real SIGKILL at likelihood call {k} the file cannot be resumed from: {err}", {"kill": "SIGKILL"}))
    return V, done


def finish(case, scn, res, pre):
    from ..core import digest_of, jsonable

    vs = [v for v in res["violations"] if v["oracle"].split(".")[0] in WANT]
    ck = scn["checkpoint"]
    sizes = [c[2] for c in (res["ref"] or {}).get("checkpoints", [])]
    pattern = (
        ("grow" if any(b > a for a, b in zip(sizes, sizes[1:])) else "")
        + ("shrink" if any(b < a for a, b in zip(sizes, sizes[1:])) else "")
        + ("+prev_larger" if pre is not None else "")
    )
    keys = ([[ck["mode"], ck["every"], pattern, ph] for ph in res["phases"]] if res["states"] else []) + [k for k in res["nontrivial_keys"] if "second_crash" in k]
    return {
        "violations": vs,
        "aborted": res["aborted"],
        "evaluations": res["evaluations"],
        "events": res["events"],
        "iterations": res["iterations"],
        "faults_fired": res["faults_fired"],
        "probes": {**res["probes"], **{"phase:" + k: v for k, v in res["phases"].items()}},
        "nontrivial_keys": keys,
        "digest": digest_of([res["ref"], [(v["oracle"], v["message"]) for v in vs]]),
        "sample": jsonable({
            "scenario": {k: scn[k] for k in ("n_samples", "sample_kwargs", "checkpoint", "preconditioning")},
            "previous_larger_run_in_file": pre is not None,
            "reference": res["ref"],
            "crash_points": res["crash_points"],
            "distinct_durable_states": res["states"],
        }),
        "exhaustive_crash_points": bool(res.get("crash_points_exhaustive")),
    }


def aggregate(outcomes):
    return {
        "crash_points_enumerated": sum((o.get("sample") or {}).get("crash_points", 0) for o in outcomes),
        "distinct_durable_states": sum((o.get("sample") or {}).get("distinct_durable_states", 0) for o in outcomes),
        "cases_with_every_crash_point_enumerated": sum(1 for o in outcomes if o.get("exhaustive_crash_points")),
    }


def shrink_candidates(case):
    scn, pre = scenario_of(case)
    base = {k: v for k, v in case.items() if k not in ("scenario", "pre_run")}
    out = []
    if pre is not None:
        out.append({**base, "scenario": scn, "pre_run": None})
    for s in shrink_scenario_candidates(scn):
        if s["checkpoint"]["mode"] in ("path", "auto"):
            out.append({**base, "scenario": s, "pre_run": pre})
    return out
