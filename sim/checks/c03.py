"""C03 -- the fitted proposal is a normalised density; sampling and evaluation agree."""

from __future__ import annotations

import math
import os

import numpy as np
from scipy import special

from .. import model as M
from ..core import digest_of, jsonable, rng_from, stream_seeds, to_np
from ..harness import violation

ID = "C03"
LEVEL = "exploration"
RULE = (
    "case = one REAL flow configuration: back-end (zuko, flowjax) x bounded transform (logit, probit, off) x affine (on, off) x dtype "
    "(float32, float64) x untrained / trained for 2 epochs on a seeded data set, built through the public classes with the repo's "
    "FlowTransform as data transform. In-run invariants at the proposal seam: (a) every batch (x, log_q) returned by "
    "sample_and_log_prob satisfies log_prob(x) == log_q pointwise within dtype tolerance; (b) every drawn x lies inside the declared "
    "bounds when a bounded transform is on; (c) after a save/load cycle (restart: new object from the HDF5 file only) the reloaded flow "
    "gives the same log_prob on the recorded draws; (d) normalisation, decided statistically INSIDE the simulation: an importance-"
    "sampling run through Aspire with L == 1 and a closed-form normalised prior with lighter tails than the proposal (placed from a pilot "
    "batch) must give E[Z_hat] = 1 over R seeded replicates within 6 standard errors + 1%; any missing/sign-flipped Jacobian term shifts "
    "log Z_hat by O(1). evaluations = flow configurations x (pointwise batches + replicates); non-trivial = configuration whose "
    "normalisation ensemble was conclusive; distinct_nontrivial counts distinct configurations."
)
ASSUMPTIONS = [
    "normalisation is decided by a seeded Monte-Carlo identity, not quadrature: errors below a few percent are not detectable (stated limit)",
    "CPU, single-threaded numerics",
]
COMPONENTS = {
    "real": ["aspire.flows.torch.flows.ZukoFlow", "aspire.flows.jax.flows.FlowJax", "aspire.transforms.FlowTransform (logit/probit/affine)", "Aspire.sample_posterior(importance)",
             "flow save/load", "torch/zuko", "jax/flowjax/equinox"],
    "stub": ["user likelihood (constant) and prior (closed-form normalised density)"],
    "not_run": ["flow matching variant (ZukoFlowMatching)", "GPU"],
}
BUDGET_S = {"quick": 85, "thorough": 1500}
K_SIGMA = 6.0
B_ALLOW = 0.01


def gen_cases(seed, tier):
    cfgs = []
    for backend in ("zuko", "flowjax"):
        for bounded in ("logit", "probit", None):
            for affine in (True, False):
                for dtype in ("float32", "float64"):
                    for trained in (False, True):
                        for refit in (False, True):
                            cfgs.append(dict(backend=backend, bounded=bounded, affine=affine, dtype=dtype, trained=trained, refit=refit))
    # bounds written as integer literals ({"x": [0, 10]}, as in the repository's own example) with no dtype given: the
    # transform then starts from integer bound arrays
    for backend in ("zuko", "flowjax"):
        for bounded in ("logit", "probit"):
            for trained in (False, True):
                cfgs.append(dict(backend=backend, bounded=bounded, affine=True, dtype=None, trained=trained, refit=False, int_bounds=True))
    # the flow as Aspire itself builds it (init_flow: its own data transform, from the instance's settings), with one PERIODIC
    # parameter among the bounded ones -- building the flow classes directly never shows what Aspire passes on
    for backend in ("zuko", "flowjax"):
        for trained in (False, True):
            cfgs.append(dict(backend=backend, bounded="logit", affine=True, dtype="float64", trained=trained, refit=False, via_aspire=True))
    n_plain = len(cfgs) - 12
    rng = rng_from(stream_seeds(seed, ID, 0)["scenario"])
    if tier == "quick":
        idx = sorted(rng.choice(n_plain, size=16, replace=False).tolist())
        # make sure both back-ends and all three bounded settings appear
        ib = [c for c in cfgs[n_plain:] if c.get("int_bounds") and (c["backend"], c["bounded"], c["trained"]) in (("flowjax", "logit", False), ("zuko", "probit", True), ("flowjax", "probit", True))]
        ib += [c for c in cfgs[n_plain:] if c.get("via_aspire") and (c["backend"], c["trained"]) in (("zuko", False), ("flowjax", False))]
        cfgs = [cfgs[i] for i in idx] + ib
    out = []
    for i, c in enumerate(cfgs):
        # 1-4 dimensions (above 2 flowjax inserts key-dependent permutation layers, zuko alternates its masks differently)
        c["dims"] = (2, 3, 2, 1, 3, 4)[i % 6] if tier == "quick" else (1, 2, 3, 4)[i % 4]
        ss = stream_seeds(seed, ID, 1 + i)
        out.append({"run_index": i, "cfg": c, "seed": ss["scenario"] % (1 << 30), "tier": tier,
                    "replicates": 12 if tier == "quick" else 32, "n_draw": 2000})
    return out


class RefPrior:
    """Normalised density on the flow's support: Gaussian N(m, s^2) per dimension in the reference space phi(x) in
    {logit of the unit-scaled x, probit of the unit-scaled x, identity}, pulled back to x with the simulator's own Jacobian."""

    def __init__(self, kind, lo, hi, m, s):
        self.kind, self.lo, self.hi, self.m, self.s = kind, np.asarray(lo), np.asarray(hi), np.asarray(m), np.asarray(s)

    def phi(self, x):
        x = np.asarray(x, dtype=np.float64)
        if self.kind is None:
            return x, np.zeros(len(x))
        u = (x - self.lo) / (self.hi - self.lo)
        inside = np.all((u > 0) & (u < 1), axis=1)
        u = np.clip(u, 1e-300, 1 - 1e-16)
        if self.kind == "logit":
            y = np.log(u) - np.log1p(-u)
            lj = np.sum(-np.log(u) - np.log1p(-u) - np.log(self.hi - self.lo), axis=1)
        else:
            y = special.ndtri(u)
            lj = np.sum(0.5 * (math.log(2 * math.pi) + y * y) - np.log(self.hi - self.lo), axis=1)
        return y, np.where(inside, lj, -np.inf)

    def log_pdf(self, x):
        y, lj = self.phi(x)
        z = (y - self.m) / self.s
        lp = -0.5 * np.sum(z * z, axis=1) - np.sum(np.log(self.s)) - 0.5 * y.shape[1] * math.log(2 * math.pi)
        with np.errstate(invalid="ignore"):
            return np.where(np.isfinite(lj), lp + lj, -np.inf)


class PriorFn:
    def __init__(self, ref):
        self.ref = ref

    def __call__(self, samples):
        return self.ref.log_pdf(np.asarray(to_np(samples.x), dtype=np.float64))


def const_like(samples):
    return np.zeros(len(samples.x))


def build_flow(cfg, seed):
    from aspire.transforms import FlowTransform

    d = int(cfg.get("dims", 2))
    params = ["q", "m", "z", "b"][:d]  # not in alphabetical order (HDF5 groups iterate alphabetically)
    lo, hi = np.array([-2.0, 1.0, 0.5, -7.0])[:d], np.array([3.0, 9.0, 2.5, -1.0])[:d]
    bounds = {p: (float(l), float(h)) for p, l, h in zip(params, lo, hi)}
    if cfg.get("int_bounds"):
        lo, hi = np.array([-2, 1, 0, -7])[:d], np.array([3, 9, 2, -1])[:d]
        bounds = {p: [int(l), int(h)] for p, l, h in zip(params, lo, hi)}
    rng = rng_from(seed)
    if cfg.get("via_aspire"):
        import math as _m

        from aspire import Aspire

        # first parameter periodic on [0, 2 pi): the data are piled up on the wrap point, so an untrained / barely trained flow
        # has plenty of mass on both sides of it
        lo, hi = lo.astype(float).copy(), hi.astype(float).copy()
        lo[0], hi[0] = 0.0, 2 * _m.pi
        bounds = {p_: (float(l), float(h)) for p_, l, h in zip(params, lo, hi)}
        extra = {"seed": int(seed % 10000), "flow_class": "MAF", "transforms": 2, "hidden_features": [8, 8]} if cfg["backend"] == "zuko" else {"flow_layers": 2, "nn_width": 8}
        if cfg["backend"] == "flowjax":
            import jax
            jax.config.update("jax_enable_x64", True)
            extra["key"] = jax.random.key(int(seed % 10000))
        A0 = Aspire(log_likelihood=const_like, log_prior=const_like, dims=d, parameters=params, prior_bounds=bounds,
                    periodic_parameters=[params[0]], bounded_to_unbounded=True, bounded_transform="logit", flow_backend=cfg["backend"],
                    dtype=cfg["dtype"], **extra)
        A0.init_flow()
        flow = A0.flow
        xp = flow.xp
        x = lo + (hi - lo) * rng.uniform(0.25, 0.75, size=(300, d))
        x[:, 0] = (rng.normal(0.0, 0.5, size=300)) % (2 * _m.pi)
        fit_kw = {"n_epochs": 2, "batch_size": 100} if cfg["backend"] == "zuko" else {"max_epochs": 2, "batch_size": 100, "show_progress": False}
        if cfg["trained"]:
            flow.fit(xp.asarray(x, dtype=flow.dtype), **fit_kw)
        else:
            flow.fit_data_transform(xp.asarray(x, dtype=flow.dtype))
        flow._sim_aspire = A0  # run_case also draws through Aspire.sample_flow
        return flow, params, bounds, lo, hi
    if cfg["backend"] == "zuko":
        import array_api_compat.torch as xp
        import torch

        from aspire.flows.torch.flows import ZukoFlow

        torch.set_num_threads(1)
        dt = FlowTransform(parameters=params, prior_bounds=bounds, bounded_to_unbounded=cfg["bounded"] is not None,
                           bounded_transform=cfg["bounded"] or "logit", affine_transform=cfg["affine"], xp=xp, dtype=cfg["dtype"])
        flow = ZukoFlow(dims=d, flow_class="MAF", data_transform=dt, seed=int(seed % 10000), dtype=cfg["dtype"], transforms=2, hidden_features=[8, 8])
        fit_kw = {"n_epochs": 2, "batch_size": 100}
    else:
        import jax
        jax.config.update("jax_enable_x64", True)
        import jax.numpy as xp

        from aspire.flows.jax.flows import FlowJax

        dt = FlowTransform(parameters=params, prior_bounds=bounds, bounded_to_unbounded=cfg["bounded"] is not None,
                           bounded_transform=cfg["bounded"] or "logit", affine_transform=cfg["affine"], xp=xp, dtype=cfg["dtype"])
        flow = FlowJax(dims=d, key=jax.random.key(int(seed % 10000)), data_transform=dt, dtype=cfg["dtype"], flow_layers=2, nn_width=8)
        fit_kw = {"max_epochs": 2, "batch_size": 100, "show_progress": False}
    x = lo + (hi - lo) * rng.uniform(0.25, 0.75, size=(300, d))
    npdt = np.float32 if (cfg["dtype"] == "float32" or (cfg["dtype"] is None and cfg["backend"] == "zuko")) else np.float64
    if cfg.get("refit"):
        # the same flow object is fitted twice, first to a much narrower data set (different whitening scale)
        x_first = lo + (hi - lo) * rng.uniform(0.45, 0.55, size=(300, d))
        if cfg["trained"]:
            flow.fit(xp.asarray(x_first.astype(npdt)), **fit_kw)
        else:
            flow.fit_data_transform(xp.asarray(x_first.astype(npdt)))
    if cfg["trained"]:
        flow.fit(xp.asarray(x.astype(npdt)), **fit_kw)
    else:
        flow.fit_data_transform(xp.asarray(x.astype(npdt)))
    return flow, params, bounds, lo, hi


def run_case(case, workdir):
    cfg = case["cfg"]
    where = dict(cfg)
    V = []
    probes = {}
    flow, params, bounds, lo, hi = build_flow(cfg, case["seed"])
    bits = 32 if cfg["dtype"] == "float32" else 64
    if cfg["dtype"] is None:
        # no dtype requested: both back-ends then compute in single precision (flowjax keeps float32 parameters even when
        # jax x64 widens the arrays it returns), so these cases are judged at float32 resolution
        bits = 32
    tol = dict(rtol=2e-4, atol=2e-4) if bits == 32 else dict(rtol=1e-8, atol=1e-8)
    if cfg["backend"] == "zuko" and bits == 64:
        # observation (DESIGN 7): with torch float64 the repo's transforms build parts of log|J| with torch.ones()/zeros() in
        # the default float32, so the two paths agree to ~1e-7 only; judged at that resolution
        tol = dict(rtol=1e-6, atol=1e-6)
    evaluations = 0
    # ---- (a) + (b): pointwise agreement and bounds on several batches
    batches = []
    A0 = getattr(flow, "_sim_aspire", None)
    for b in range(4):
        if A0 is not None and b == 3:
            # the instance's own way of handing out draws together with their proposal density
            smp0 = A0.sample_flow(256)
            x, lq = smp0.x, smp0.log_q
            probes["draws_through_Aspire.sample_flow"] = 256
            where = {**where, "route": "Aspire.sample_flow"}
        else:
            x, lq = flow.sample_and_log_prob(256)
        xn = np.asarray(to_np(x), dtype=np.float64)
        lqn = np.asarray(to_np(lq), dtype=np.float64)
        lpn = np.asarray(to_np(flow.log_prob(x)), dtype=np.float64)
        evaluations += 1
        batches.append((x, xn, lqn))
        fin = np.isfinite(lqn) & np.isfinite(lpn)
        # a draw that lands within float rounding of a bound is clipped by the forward map: not judged
        if cfg["bounded"] is not None:
            u = (xn - lo) / (hi - lo)
            edge = np.any((u < 1e-5) | (u > 1 - 1e-5), axis=1)
            if bits == 32:
                # float32 arithmetic of erfinv / logit loses more than the comparison tolerance far out in the tails
                # (1-u is resolved to ~6e-8 only): those draws are counted, not judged
                yref, _ = RefPrior(cfg["bounded"], lo, hi, 0.0, 1.0).phi(xn)
                edge |= np.any(np.abs(yref) > (2.75 if cfg["bounded"] == "probit" else 6.0), axis=1)
        else:
            edge = np.zeros(len(xn), bool)
        probes["draws_in_float_unresolvable_tail"] = probes.get("draws_in_float_unresolvable_tail", 0) + int(edge.sum())
        if b == 0:
            edge0 = edge
        extra = np.zeros(len(xn))
        if bits == 32:
            # float32: log_q is computed at the flow's internal point and x is then rounded; allow what one
            # float32 ulp of x moves log_prob (large in the tails of a probit/logit map)
            for j in range(xn.shape[1]):
                for sgn in (-1.0, 1.0):
                    xs = xn.copy()
                    xs[:, j] = xs[:, j] + sgn * 2.0 * np.spacing(np.abs(xs[:, j]).astype(np.float32)).astype(np.float64)
                    with np.errstate(all="ignore"):
                        dv = np.abs(np.asarray(to_np(flow.log_prob(xs.astype(np.float32))), dtype=np.float64) - lpn)
                    extra = np.maximum(extra, np.where(np.isfinite(dv), dv, np.inf))
        ok = (np.abs(lqn - lpn) <= tol["atol"] + tol["rtol"] * np.abs(lpn) + 3.0 * extra) | ~fin | edge
        if not np.all(ok):
            i = int(np.flatnonzero(~ok)[0])
            V.append(violation(
                "c03.sample_vs_log_prob",
                f"{cfg['backend']} flow ({cfg}): log-density returned with a drawn sample ({lqn[i]!r}) differs from log_prob at that sample "
                f"({lpn[i]!r}) for {int((~ok).sum())} of {len(ok)} draws", where, diff=float(lqn[i] - lpn[i])))
            break
        if cfg["bounded"] is not None:
            if np.any(xn < lo - 1e-12) or np.any(xn > hi + 1e-12):
                V.append(violation("c03.bounds", f"{cfg['backend']} flow with bounded transform {cfg['bounded']}: a draw lies outside the declared bounds", where))
                break
            probes["draws_checked_against_bounds"] = probes.get("draws_checked_against_bounds", 0) + len(xn)
    # ---- (c): restart -> reload from the file only
    import h5py

    from aspire.utils import AspireFile

    path = os.path.join(workdir, "flow.h5")
    with AspireFile(path, "w") as f:
        flow.save(f, "flow")
    try:
        with AspireFile(path, "r") as f:
            flow2 = type(flow).load(f, "flow")
        x, xn, lqn = batches[0]
        lp2 = np.asarray(to_np(flow2.log_prob(x)), dtype=np.float64)
        lp1 = np.asarray(to_np(flow.log_prob(x)), dtype=np.float64)
        t2 = dict(rtol=1e-3, atol=1e-3) if bits == 32 else dict(rtol=1e-6, atol=1e-6)
        fin = np.isfinite(lp1) & np.isfinite(lp2) & ~edge0
        sens = np.zeros(len(lp1))
        if bits == 32:
            for j in range(xn.shape[1]):
                for sgn in (-1.0, 1.0):
                    xs = xn.copy()
                    xs[:, j] = xs[:, j] + sgn * 2.0 * np.spacing(np.abs(xs[:, j]).astype(np.float32)).astype(np.float64)
                    with np.errstate(all="ignore"):
                        dv = np.abs(np.asarray(to_np(flow.log_prob(xs.astype(np.float32))), dtype=np.float64) - lp1)
                    sens = np.maximum(sens, np.where(np.isfinite(dv), dv, np.inf))
        if not np.all(np.abs(lp1[fin] - lp2[fin]) <= t2["atol"] + t2["rtol"] * np.abs(lp1[fin]) + 3.0 * sens[fin]):
            V.append(violation("c03.reload", f"{cfg['backend']} flow ({cfg}): after save/load the flow gives a different log_prob on its own draws "
                               f"(max dev {float(np.max(np.abs(lp1[fin] - lp2[fin])))})", where))
        probes["reload_cycles"] = 1
    except Exception as e:  # noqa: BLE001
        V.append(violation("c03.reload_raised", f"{cfg['backend']} flow ({cfg}): reloading the saved flow raised {type(e).__name__}: {e}",
                           {**where, "error_type": type(e).__name__}))
    # ---- (d): normalisation through an importance-sampling run with L == 1
    from aspire import Aspire

    xp_pilot, _ = flow.sample_and_log_prob(4000)
    xp_pilot = np.asarray(to_np(xp_pilot), dtype=np.float64)
    ref0 = RefPrior(cfg["bounded"], lo, hi, 0.0, 1.0)
    y, _ = ref0.phi(xp_pilot)
    y = y[np.all(np.isfinite(y), axis=1)]
    med = np.median(y, axis=0)
    q16, q84 = np.percentile(y, [16, 84], axis=0)
    s = 0.5 * 0.5 * (q84 - q16)
    ref = RefPrior(cfg["bounded"], lo, hi, med, s)
    import array_api_compat.numpy as xnp

    A = Aspire(log_likelihood=const_like, log_prior=PriorFn(ref), dims=len(params), parameters=params, prior_bounds=bounds, flow=flow,
               xp=xnp, dtype="float64")
    zs, ess = [], []
    for r in range(case["replicates"]):
        smp = A.sample_posterior(case["n_draw"], sampler="importance")
        evaluations += 1
        zs.append(float(np.exp(float(to_np(smp.log_evidence)))))
        ess.append(float(to_np(smp.effective_sample_size)))
    zs = np.asarray(zs)
    mean, se = float(zs.mean()), float(zs.std(ddof=1) / math.sqrt(len(zs)))
    conclusive = se < 0.05 and np.median(ess) > 50
    if conclusive:
        if abs(mean - 1.0) > K_SIGMA * se + B_ALLOW:
            V.append(violation(
                "c03.normalisation",
                f"{cfg['backend']} flow ({cfg}): importance sampling with L == 1 and a normalised prior gives E[Z_hat] = {mean:.4f} +- {se:.4f} over "
                f"{len(zs)} replicates of {case['n_draw']} draws; a normalised proposal density gives 1", where, mean=mean, se=se))
    else:
        probes["normalisation_inconclusive"] = 1
    return {
        "violations": V, "aborted": None, "evaluations": evaluations, "events": evaluations,
        "probes": probes, "faults_fired": {"restart": 1},
        "nontrivial_keys": [[cfg["backend"], cfg["bounded"], cfg["affine"], cfg["dtype"], cfg["trained"], cfg.get("refit", False), cfg.get("dims", 2), bool(cfg.get("int_bounds")), bool(cfg.get("via_aspire"))]] if conclusive else [],
        "digest": digest_of([zs, [v["oracle"] for v in V]]),
        "sample": jsonable({"cfg": cfg, "E_Zhat": mean, "se": se, "median_ess": float(np.median(ess)), "replicates": len(zs)}),
    }
