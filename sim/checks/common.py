"""Bits shared by the crash-loop checks C11 / C12 / C18."""

from __future__ import annotations

from ..core import jsonable, rng_from, stream_seeds
from ..crashloop import ROUTES, explore
from ..swarm import draw_smc_scenario

COMPONENTS = {
    "real": [
        "aspire.Aspire (fit, sample_posterior, resume_from_file, auto_checkpoint)",
        "aspire.samplers.smc.base.SMCSampler / smc.minipcn.MiniPCNSMC (whole loop, checkpoint build/restore)",
        "aspire.samplers.mcmc.MCMCSampler.draw_initial_samples",
        "aspire.samples (Samples / SMCSamples)", "aspire.history.SMCHistory",
        "aspire.transforms (CompositeTransform, FlowTransform)",
        "aspire.utils (AspireFile, dump_state, recursively_save_to_h5_file, load_from_h5_file)",
        "h5py / HDF5", "pickle", "numpy",
    ],
    "stub": [
        "minipcn.Sampler (random-walk Metropolis kernel drawing only from the rng it is given)",
        "orng.ArrayRNG (recording numpy Generator; unseeded construction served by the entropy seam)",
        "SimFlow proposal (analytic density, registered through the aspire.flows entry point)",
        "user log_likelihood / log_prior (analytic targets; crash seam)",
    ],
    "not_run": ["blackjax", "real minipcn / orng / emcee", "zuko / flowjax (in this check)"],
}


def crash_case(prop, seed, run_index, **kw):
    ss = stream_seeds(seed, prop, run_index)
    return {"run_index": run_index, "scenario_seed": ss["scenario"], "fault_seed": ss["faults"], **kw}


def shrink_scenario_candidates(scn):
    """Greedy simplifications of a scenario dict (each a full scenario)."""
    import copy

    out = []

    def mod(fn):
        s = copy.deepcopy(scn)
        try:
            fn(s)
        except Exception:
            return
        if s != scn:
            out.append(s)

    mod(lambda s: s.__setitem__("preconditioning", "none") or s.__setitem__("preconditioning_kwargs", None))
    mod(lambda s: s["sample_kwargs"].pop("n_final_samples"))
    mod(lambda s: s["sample_kwargs"].pop("max_n_steps"))
    mod(lambda s: s["sample_kwargs"].pop("min_step"))
    mod(lambda s: s["sample_kwargs"].__setitem__("target_efficiency", 0.5) or s["sample_kwargs"].pop("target_efficiency_rate", None))
    mod(lambda s: s["checkpoint"].__setitem__("every", 1))
    mod(lambda s: s["checkpoint"].__setitem__("mode", "path"))
    mod(lambda s: s["sample_kwargs"]["sampler_kwargs"].__setitem__("n_steps", 1))
    mod(lambda s: s.__setitem__("n_samples", max(8, s["n_samples"] // 2)))
    if scn["flow"].get("backend") == "simflow":
        mod(lambda s: s["flow"].__setitem__("alpha", 0.0))
        mod(lambda s: s["flow"].__setitem__("kind", "native") or s.__setitem__("bounded_to_unbounded", False))
    mod(lambda s: s.__setitem__("rng_route", "ctor"))
    mod(lambda s: s.__setitem__("xp", "numpy") or s.__setitem__("dtype", None))
    return out
