"""C17 -- prior is evaluated before likelihood on the same points; evaluations are counted."""

from __future__ import annotations

import numpy as np

from .. import oracles as O
from ..core import digest_of, jsonable, rng_from, stream_seeds
from ..crashloop import explore
from ..env import FakePool
from ..runner import run_process
from . import runs
from ..swarm import PRECONDS_WITH_FLOW
from .common import shrink_scenario_candidates

ID = "C17"
LEVEL = "exploration"
RULE = (
    "case = one swarm-drawn scenario over every sampler x preconditioning x namespace x dtype, one third with the "
    "likelihood (and sometimes the prior) routed through a FakePool by Aspire.enable_pool, SMC cases with checkpoints also "
    "crashed at sampled likelihood/prior calls and resumed. Temporal invariant evaluated AT CALL TIME inside the user's "
    "likelihood for every call of every process: samples.log_prior is attached, has one entry per point, equals pi "
    "recomputed on exactly samples.x, and every point was passed to the prior earlier in the trace. At the end of each "
    "finished process n_likelihood_evaluations must equal the sum of batch sizes the likelihood was called with. "
    "evaluations = processes; non-trivial = process with >= 2 likelihood calls; distinct_nontrivial counts distinct "
    "(sampler, namespace, dtype, preconditioning, pool, resumed, phases seen) tuples."
)
ASSUMPTIONS = ["stub kernels/proposal; BlackJAXSMC through a jax-written random-walk stand-in for blackjax (nuts / hmc branches not run); its evaluation counter is not judged (a traced call has no definite number of points)"]
COMPONENTS = runs.COMPONENTS
BUDGET_S = {"quick": 80, "thorough": 1500}


def gen_cases(seed, tier):
    n = 400 if tier == "quick" else 8000
    out = []
    for i in range(n):
        ss = stream_seeds(seed, ID, i)
        out.append({"run_index": i, "scenario_seed": ss["scenario"], "fault_seed": ss["faults"], "tier": tier})
    from . import c05_blackjax

    # BlackJAXSMC's own call sites (its copy of the kernel target, traced under vmap / scan, and the eager re-evaluation after
    # every kernel): the jax twin of the model checks the attached prior at trace time and, through jax.debug.callback, by value
    bj = c05_blackjax.cases(ID, seed, tier, n_quick=6, n_thorough=60)
    step = max(1, len(out) // (len(bj) + 1))
    for k, c in enumerate(bj):
        out.insert(min(len(out), (k + 1) * step + k), c)
    return out


def scenario_of(case):
    if "scenario" in case:
        return case["scenario"]
    if case.get("kind") == "blackjax":
        from . import c05_blackjax

        return c05_blackjax.scenario(case)
    return runs.draw_any(case["scenario_seed"], case["tier"], preconds=PRECONDS_WITH_FLOW)


def run_case(case, workdir):
    scn = scenario_of(case)
    if case.get("kind") == "blackjax":
        from . import c05_blackjax

        return c05_blackjax.judge(case, workdir, scn, want=("c17",))
    rng = rng_from(case["fault_seed"])
    use_pool = case.get("pool", bool(rng.integers(3) == 0))
    par_prior = bool(rng.integers(2))
    pool = FakePool() if use_pool else None
    if pool is not None:
        pool.parallelize_prior = par_prior  # read by the runner: enable_pool(pool, close_pool=False, parallelize_prior=...)
    V, probes, keys = [], {}, []
    if pool is not None:
        # enable_pool(pool, close_pool=False, parallelize_prior=?) is applied by the runner
        scn = dict(scn)
    def probe_fn(ki, z0):
        # the kernel asks about a (small) batch of far-away points: wherever the preconditioning map is unbounded they are
        # ALL outside the prior support -- the user's likelihood must still receive exactly the points that are counted
        sd = np.where(z0.std(axis=0) > 0, z0.std(axis=0), 1.0)
        return [z0[: min(3, len(z0))] + 1e3 * sd]

    r = run_process(scn, workdir, pool=pool, fresh_file=True, probe_fn=probe_fn if case["run_index"] % 2 == 0 else None)
    evaluations, events = 1, len(r.trace.events)
    aborted = None
    if r.status != "ok":
        aborted = {"why": "run did not finish", "status": r.status, "error": r.error, "tb": (r.tb or "")[-1200:],
                   "sampler": scn["sampler"], "xp": scn["xp"], "dtype": scn["dtype"]}
    V += O.check_model_seam(r, scn)
    phases = sorted({kw["phase"].split("(")[0] for _, k, kw in r.trace.events if k == "like"})
    if pool is not None:
        probes["pool_map_calls"] = pool.n_map
    if r.model.n_like_calls >= 2:
        keys.append([scn["sampler"], scn["xp"], scn["dtype"], scn["_precond"], bool(use_pool), False, phases])
    if r.status == "ok" and scn["sampler"] == "smc" and scn["checkpoint"]["mode"] != "none" and case.get("crash", True) and pool is None:
        res = explore(scn, workdir, want=("c17",), rng=rng_from(case["fault_seed"] + 5),
                      routes=("dict", "path", "resume_from_file"), max_crash_points=10, max_states=2)
        V += [v for v in res["violations"] if v["oracle"].startswith("c17.")]
        evaluations += res["evaluations"]
        events += res["events"]
        if res["resumes"]:
            probes["resumed_runs_judged"] = res["resumes"]
            keys.append([scn["sampler"], scn["xp"], scn["dtype"], scn["_precond"], False, True, phases])
    return {
        "violations": V, "aborted": aborted, "evaluations": evaluations, "events": events,
        "iterations": len(r.history.beta) if r.history is not None and hasattr(r.history, "beta") else 0,
        "probes": {**probes, **{"like_calls_in_phase:" + p: 1 for p in phases}}, "faults_fired": {},
        "nontrivial_keys": keys,
        "digest": digest_of([r.trace.digest(), [(v["oracle"], v["message"]) for v in V]]),
        "sample": jsonable({"sampler": scn["sampler"], "xp": scn["xp"], "dtype": scn["dtype"], "pool": bool(use_pool),
                            "likelihood_calls": r.model.n_like_calls, "points": r.model.n_like_points,
                            "reported": r.n_like_reported, "phases": phases}),
    }


def shrink_candidates(case):
    if case.get("kind") == "blackjax":
        return []
    scn = scenario_of(case)
    base = {k: v for k, v in case.items() if k != "scenario"}
    return [{**base, "scenario": s, "crash": False} for s in shrink_scenario_candidates(scn)] + [{**base, "scenario": scn, "crash": False, "pool": False}]
