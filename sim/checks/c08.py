"""C08 -- SMC evidence is the accumulated product of incremental ratios."""

from __future__ import annotations

import copy

import numpy as np

from .. import oracles as O
from ..core import digest_of, jsonable, rng_from, stream_seeds
from ..crashloop import explore
from ..runner import run_process
from ..swarm import PRECONDS_WITH_FLOW, draw_smc_scenario, pick
from . import runs
from .common import shrink_scenario_candidates

ID = "C08"
LEVEL = "exploration"
RULE = (
    "case = one swarm-drawn SMC scenario run as a family of twin runs under one seed. History oracle on every run: each "
    "recorded log_norm_ratio / variance equals the simulator's own log-mean-exp / delta-method variance of the incremental "
    "weights of the stored PRE-resampling population between the temperatures actually used; returned log_evidence == sum of "
    "ratios and error == sqrt(sum of variances). Twin-run oracles (bit equality): (a) checkpointing off vs callback vs file vs "
    "auto context at a random cadence, (b) n_final_samples none vs smaller vs larger, (c) the simulator replaces the "
    "rng.choice answer of one resampling step by a different valid draw: ratios and temperatures up to and including that "
    "step must not change, (d) a run crashed at sampled likelihood calls and resumed. evaluations = processes; non-trivial = "
    "family with >= 2 iterations; distinct_nontrivial counts distinct (schedule mode, target, namespace, dtype, twin kind) tuples. "
    "A few cases run BlackJAXSMC (stand-in random-walk blackjax, jax-traceable model) and apply the same history and evidence oracles."
)
ASSUMPTIONS = ["stub kernel/proposal/model", "twin runs share every seed; only the named option differs"]
COMPONENTS = runs.COMPONENTS
BUDGET_S = {"quick": 80, "thorough": 1500}
KEYS = ("log_evidence", "log_evidence_error", "h.beta", "h.log_norm_ratio", "h.log_norm_ratio_var", "h.ess")


def gen_cases(seed, tier):
    n = 160 if tier == "quick" else 5000
    out = []
    for i in range(n):
        ss = stream_seeds(seed, ID, i)
        out.append({"run_index": i, "scenario_seed": ss["scenario"], "fault_seed": ss["faults"], "tier": tier})
    from . import c05_blackjax

    return c05_blackjax.cases(ID, seed, tier) + out


def scenario_of(case):
    if "scenario" in case:
        return case["scenario"]
    if case.get("kind") == "blackjax":
        from . import c05_blackjax

        return c05_blackjax.scenario(case)
    quick = case["tier"] == "quick"
    scn = draw_smc_scenario(
        case["scenario_seed"],
        xps=("numpy", "numpy", "torch", "jax"), dtypes=(None, None, "float64", "float32"),
        particles=(12, 40) if quick else (12, 96), kernel_steps=(1, 2),
        checkpoint_modes=("none",), n_final=("none",), rng_routes=("ctor",), offset_prob=0.2, reuse_prob=0.12, preconds=PRECONDS_WITH_FLOW,
    )
    return scn


def _cmp(V, ref_sum, got_sum, what, where, keys=KEYS, upto=None):
    for k in keys:
        a, b = ref_sum.get(k), got_sum.get(k)
        if upto is not None and isinstance(a, list):
            a, b = a[:upto], (b or [])[:upto]
        if digest_of(a) != digest_of(b):
            V.append(
                O.violation(
                    f"c08.invariance_{what}",
                    f"{k} changed when only {what.replace('_', ' ')} was varied: {jsonable(a)!r:.120} vs {jsonable(b)!r:.120}",
                    {**where, "twin": what, "key": k},
                )
            )
            return


def run_case(case, workdir):
    if case.get("kind") == "blackjax":
        from . import c05_blackjax

        return c05_blackjax.judge(case, workdir, scenario_of(case), want=('c08',))
    scn = scenario_of(case)
    rng = rng_from(case["fault_seed"])
    where = O.scn_where(scn)
    V, probes, keys = [], {}, []
    evaluations, events = 0, 0
    ref = run_process(scn, workdir, fresh_file=True)
    evaluations += 1
    events += len(ref.trace.events)
    if ref.status != "ok":
        return {"violations": [], "aborted": {"why": "reference did not finish", "error": ref.error, "tb": (ref.tb or "")[-1000:]},
                "evaluations": 1, "events": events, "nontrivial_keys": [], "digest": digest_of(ref.status)}
    n_iter = len(ref.history.beta)
    rs = ref.summary()
    V += O.check_history(ref, scn, props=("c08",))
    base_key = [scn["_schedule_mode"], scn["target"]["kind"], scn["xp"], scn["dtype"]]
    twins = case.get("twins") or ["checkpoint", "n_final", "choice", "resume"]
    if scn.get("first_call") or scn.get("aspire_first_call"):
        # a sampler object that already served another sample() call is driven directly (no Aspire-level checkpoint plumbing)
        twins = [t_ for t_ in twins if t_ in ("n_final", "choice")]
        probes["sampler_object_reused"] = 1
    # (a) checkpointing
    if "checkpoint" in twins:
        for mode in ("callback", "path", "auto"):
            s2 = copy.deepcopy(scn)
            s2["checkpoint"] = {"mode": mode, "every": int(rng.integers(1, 4))}
            r = run_process(s2, workdir, fresh_file=True)
            evaluations += 1
            events += len(r.trace.events)
            if r.status != "ok":
                V.append(O.violation("c08.twin_failed", f"twin run with checkpoint mode {mode} did not finish: {r.error}", {**where, "twin": "checkpointing"}))
                continue
            _cmp(V, rs, r.summary(), "checkpointing", {**where, "mode": mode})
            V += O.check_history(r, s2, props=("c08",))
        if n_iter >= 2:
            keys.append(base_key + ["checkpointing"])
    # (b) final enlargement
    if "n_final" in twins:
        for nf in (max(4, scn["n_samples"] // 2), scn["n_samples"] + int(rng.integers(3, 30))):
            s2 = copy.deepcopy(scn)
            s2["sample_kwargs"]["n_final_samples"] = nf
            r = run_process(s2, workdir, fresh_file=True)
            evaluations += 1
            events += len(r.trace.events)
            if r.status != "ok":
                V.append(O.violation("c08.twin_failed", f"twin run with n_final_samples={nf} did not finish: {r.error}", {**where, "twin": "n_final_samples"}))
                continue
            if len(r.samples.x) != nf:
                probes["n_final_not_honoured"] = 1
            _cmp(V, rs, r.summary(), "n_final_samples", {**where, "n_final": nf})
        if n_iter >= 2:
            keys.append(base_key + ["n_final_samples"])
    # (c) resampling noise of one step
    if "choice" in twins and n_iter >= 1:
        j = int(rng.integers(n_iter))
        alt = rng_from(int(rng.integers(1 << 62)))
        state = {"n": 0, "fired": False}

        def hook(a, size, p):
            k = state["n"]
            state["n"] += 1
            if k == j:
                state["fired"] = True
                return alt.choice(a, size=size, replace=True, p=p)
            return None

        r = run_process(scn, workdir, fresh_file=True, choice_hook=hook)
        evaluations += 1
        events += len(r.trace.events)
        if state["fired"]:
            probes["choice_answer_replaced"] = 1
        if r.status == "ok":
            _cmp(V, rs, r.summary(), "resampling_noise", {**where, "step": j},
                 keys=("h.beta", "h.log_norm_ratio", "h.log_norm_ratio_var"), upto=j + 1)
            V += O.check_history(r, scn, props=("c08",))
            if n_iter >= 2:
                keys.append(base_key + ["resampling_noise"])
    # (d) crash / resume
    if "resume" in twins and n_iter >= 2:
        s2 = copy.deepcopy(scn)
        s2["checkpoint"] = {"mode": pick(rng, ["path", "callback"]), "every": 1}
        s3 = copy.deepcopy(s2)
        if rng.integers(2) == 0:
            # the resuming call may be given another n_samples (e.g. the default 1000): the population comes from the checkpoint
            s3["n_samples"] = int(pick(rng, [1000, scn["n_samples"] + 17, max(4, scn["n_samples"] // 2)]))
        res = explore(s2, workdir, want=("c08",), rng=rng, routes=("bytes", "dict", "resume_from_file"), max_crash_points=8, max_states=2,
                      resume_scn=s3)
        V += [v for v in res["violations"] if v["oracle"].startswith("c08.")]
        evaluations += res["evaluations"]
        events += res["events"]
        if res["resumes"]:
            keys.append(base_key + ["resume"])
            probes["resumed_runs_judged"] = res["resumes"]
    return {
        "violations": V, "aborted": None, "evaluations": evaluations, "events": events, "iterations": n_iter,
        "probes": probes, "faults_fired": {}, "nontrivial_keys": keys,
        "digest": digest_of([rs, [(v["oracle"], v["message"]) for v in V]]),
        "sample": jsonable({"schedule": {k: v for k, v in scn["sample_kwargs"].items() if k != "sampler_kwargs"},
                            "target": scn["target"]["kind"], "xp": scn["xp"], "dtype": scn["dtype"], "iterations": n_iter,
                            "log_evidence": rs.get("log_evidence"), "ratios": rs.get("h.log_norm_ratio")}),
    }


def shrink_candidates(case):
    if case.get("kind") == "blackjax":
        return []  # the scenario is already small; the generic shrinkers assume the numpy model
    scn = scenario_of(case)
    base = {k: v for k, v in case.items() if k != "scenario"}
    out = [{**base, "scenario": scn, "twins": [t]} for t in ("checkpoint", "n_final", "choice", "resume") if case.get("twins") != [t]]
    out += [{**base, "scenario": s} for s in shrink_scenario_candidates(scn) if s["checkpoint"]["mode"] == "none"]
    return out
