"""Shared driver for the operation-engine checks (C13, C14, C16, C19)."""

from __future__ import annotations

from ..core import stream_seeds
from ..machines.base import machine_case_outcome, replay_ops, run_machine


def gen_cases(prop, seed, tier, n_quick, n_thorough, ex_quick, ex_thorough, steps):
    n = n_quick if tier == "quick" else n_thorough
    out = []
    for i in range(n):
        ss = stream_seeds(seed, prop, i)
        out.append({"run_index": i, "hseed": ss["ops"] % (1 << 32), "tier": tier,
                    "max_examples": ex_quick if tier == "quick" else ex_thorough, "steps": steps})
    return out


def run_case(machine_mod, case, workdir):
    if "ops" in case:  # replay of a recorded (minimal) operation list
        from ..machines.base import Collector

        col = Collector()
        v = replay_ops(machine_mod.Interp, [tuple(o) for o in case["ops"]], workdir, col)
        out = machine_case_outcome(col, v, case["ops"], case)
        return out
    col, v, ops = run_machine(machine_mod.make_machine, machine_mod.Interp, case["hseed"], case["max_examples"], case["steps"], workdir)
    out = machine_case_outcome(col, v, ops, case)
    if v and ops is not None:
        out["replay_case"] = {"run_index": case["run_index"], "ops": [[o, k] for o, k in ops]}
    return out
