"""Shared driver for the operation-engine checks (C13, C14, C16, C19)."""

from __future__ import annotations

from ..core import stream_seeds
from ..machines.base import machine_case_outcome, replay_ops, run_machine


def gen_cases(prop, seed, tier, n_quick, n_thorough, ex_quick, ex_thorough, steps):
    n = n_quick if tier == "quick" else n_thorough
    out = []
    for i in range(n):
        ss = stream_seeds(seed, prop, i)
        out.append({"run_index": i, "hseed": ss["ops"] % (1 << 32), "tier": tier,
                    "max_examples": ex_quick if tier == "quick" else ex_thorough, "steps": steps})
    return out


def run_case_inproc(arg):
    """Executed in a FRESH interpreter (see run_case): one seeded Hypothesis search."""
    import importlib
    import shutil

    from .. import harness

    machine_mod = importlib.import_module(arg["machine"])
    wd = harness.shm_dir()
    try:
        return _run_case(machine_mod, arg["case"], wd)
    finally:
        shutil.rmtree(wd, ignore_errors=True)


def run_case(machine_mod, case, workdir):
    """A Hypothesis search turned out to depend on what the hosting process had imported before (observed: importing
    another machine module first changes the generated sequences), so every search runs in a fresh interpreter with a
    fixed import prelude: one (VERIF_SEED, property, run_index) is then one exactly repeatable search, whichever worker
    or tool (check, selftest) asks for it.  Replays of recorded op lists do not involve Hypothesis and run in-process."""
    import json
    import os
    import subprocess
    import sys

    from .. import ROOT

    if "ops" in case or os.environ.get("VERIF_MACHINE_INPROC"):
        return _run_case(machine_mod, case, workdir)
    env = dict(os.environ)
    env["PYTHONHASHSEED"] = "0"
    env["PYTHONPATH"] = ROOT + os.pathsep + env.get("PYTHONPATH", "")
    p = subprocess.run([sys.executable, "-m", "sim.worker", "sim.checks.machine_common", "run_case_inproc"],
                       input=json.dumps({"machine": machine_mod.__name__, "case": case}), capture_output=True, text=True,
                       env=env, cwd=ROOT, timeout=1500)
    for line in p.stdout.splitlines()[::-1]:
        if line.startswith("@@RESULT@@"):
            return json.loads(line[len("@@RESULT@@"):])
    raise RuntimeError(f"machine worker failed rc={p.returncode}: {p.stderr[-1500:]}")


def _run_case(machine_mod, case, workdir):
    if "ops" in case:  # replay of a recorded (minimal) operation list
        from ..machines.base import Collector

        col = Collector()
        v = replay_ops(machine_mod.Interp, [tuple(o) for o in case["ops"]], workdir, col)
        out = machine_case_outcome(col, v, case["ops"], case)
        return out
    col, v, ops = run_machine(machine_mod.make_machine, machine_mod.Interp, case["hseed"], case["max_examples"], case["steps"], workdir)
    out = machine_case_outcome(col, v, ops, case)
    if v and ops is not None:
        out["replay_case"] = {"run_index": case["run_index"], "ops": [[o, k] for o, k in ops]}
    return out
