"""Shared by C06 / C07: schedule-option swarm runs with bounded liveness."""

from __future__ import annotations

import numpy as np

from .. import oracles as O
from ..core import digest_of, jsonable, rng_from, stream_seeds
from ..env import make_target
from ..runner import default_scenario, run_process
from ..swarm import draw_schedule, pick

COMPONENTS = {
    "real": [
        "aspire.Aspire.sample_posterior", "SMCSampler.sample / determine_beta / current_target_efficiency",
        "MiniPCNSMC.mutate", "SMCSamples.log_weights / resample / log_evidence_ratio", "aspire.utils.effective_sample_size",
        "aspire.transforms.CompositeTransform",
    ],
    "stub": ["minipcn.Sampler (RW Metropolis)", "orng.ArrayRNG", "SimFlow proposal", "analytic likelihood / prior"],
    "not_run": ["blackjax", "real minipcn/orng/emcee", "zuko/flowjax"],
}

MAX_ITER = {"quick": 250, "thorough": 1500}


def draw_case_scenario(seed, tier, force=None):
    rng = rng_from(seed)
    force = force or {}
    kind = force.get("kind") or pick(rng, ["gauss_box", "hug", "periodic", "bimodal", "peaked", "peaked"])
    d = int(pick(rng, [1, 2, 3]))
    over = {}
    if kind == "peaked":
        over["peak"] = float(10 ** rng.uniform(-5.5, -2.0))
    t = make_target(kind, d, rng, **over)
    n = int(rng.integers(16, 96))
    sk = {"sampler_kwargs": {"n_steps": 1}}
    s2, mode = draw_schedule(rng)
    sk.update(s2)
    # extra combinations the generic swarm does not draw
    extra = pick(rng, ["none", "none", "fixed_with_cap", "min_step_and_cap", "fixed_big", "tiny_min_step"])
    if extra == "fixed_with_cap" and not sk.get("adaptive", True):
        sk["max_n_steps"] = int(rng.integers(1, 10))
    elif extra == "min_step_and_cap" and sk.get("adaptive", True):
        sk["min_step"] = float(pick(rng, [0.02, 0.1, 0.3]))
        sk["max_n_steps"] = int(rng.integers(2, 30))
    elif extra == "fixed_big":
        sk = {"sampler_kwargs": {"n_steps": 1}, "adaptive": False, "n_steps": int(rng.integers(9, 60))}
        mode = "fixed"
    elif extra == "tiny_min_step" and sk.get("adaptive", True):
        sk["min_step"] = float(pick(rng, [1e-3, 1e-2]))
    if "n_steps" in force:
        sk = {"sampler_kwargs": {"n_steps": 1}, "adaptive": False, "n_steps": int(force["n_steps"])}
        mode = "fixed"
    if rng.integers(4) == 0:
        sk["n_final_samples"] = n + 5
    xp = pick(rng, ["numpy", "numpy", "numpy", "torch", "jax"]) if tier == "thorough" or rng.integers(3) == 0 else "numpy"
    dtype = pick(rng, [None, "float64", "float32"]) if xp != "numpy" else pick(rng, [None, "float32"], p=[0.8, 0.2])
    train = {"n": 200, "shift": float(rng.uniform(-2.5, 2.5)), "widen": float(rng.uniform(1.0, 2.0))}
    if kind == "peaked":
        # proposal far broader than the likelihood: ESS collapses within the bisection tolerance
        train["peak_train_sd"] = float(pick(rng, [0.02, 0.1, 0.25]))
    scn = default_scenario(
        t, n_samples=n, sample_kwargs=sk, xp=xp, dtype=dtype,
        preconditioning=pick(rng, [None, "none", "default"]),
        flow={"kind": pick(rng, ["latent", "native"]), "alpha": float(pick(rng, [0.0, 0.2])),
              "inflate": float(rng.uniform(1.2, 2.0)), "seed": int(rng.integers(1 << 30))},
        bounded_to_unbounded=bool(rng.integers(2)),
        train=train,
        checkpoint={"mode": "none", "every": 1},
        rng_route=pick(rng, ["ctor", "none"]),
        seeds={"rng": int(rng.integers(1 << 30)), "entropy": int(rng.integers(1 << 30)),
               "train": int(rng.integers(1 << 30)), "torch": int(rng.integers(1 << 30))},
    )
    if scn["flow"]["kind"] == "native":
        scn["bounded_to_unbounded"] = False
    if rng.uniform() < 0.15 and t.factor[0] != "vm":
        scn["target"]["like_cut"] = [0, float(t.lower[0] + (t.upper[0] - t.lower[0]) * rng.uniform(0.3, 0.5))]
    if sk.get("adaptive", True) and rng.uniform() < 0.2 and "n_steps" not in force:
        # beta_tolerance is a schedule option of SMCSampler.sample only: drive the base-class method, with tolerances
        # from the default to coarse ones whose multiples miss 1.0 in floating point, and demanding ESS targets
        scn["api"] = "base_smc"
        sk["beta_tolerance"] = float(pick(rng, [1e-10, 1e-8, 1e-6, 1e-4, 1e-2, 0.1, 0.15, 0.3, 0.4]))
        if not isinstance(sk.get("target_efficiency"), list):
            sk["target_efficiency"] = float(pick(rng, [0.5, 0.9, 0.99]))
        extra = extra + "+tol"
    elif rng.uniform() < 0.12 and "n_steps" not in force:
        # ONE sampler object serves two sample() calls: a preliminary run with other schedule options (a ramp before a
        # float target, fixed before adaptive, ...), then the judged run -- options of an earlier call must not linger
        s1, m1 = draw_schedule(rng)
        s1["sampler_kwargs"] = {"n_steps": 1}
        scn["api"] = "sampler"
        scn["rng_route"] = "sample" if scn["rng_route"] != "none" else "none"
        scn["first_call"] = s1
        extra = extra + "+after_" + m1
    if (scn.get("api", "aspire") == "aspire" and "first_call" not in scn and "n_steps" not in force
            and not ({"min_step", "max_n_steps", "beta_tolerance"} & set(sk)) and rng_from(int(seed) ^ 0xE3CEE).uniform() < 0.12):
        # the emcee-driven SMC variant forwards the schedule options (n_steps, adaptive, target efficiency and its rate,
        # n_final_samples) to the shared loop by itself: a share of the swarm goes through it
        scn["sampler"] = "emcee_smc"
        sk["sampler_kwargs"] = {"nsteps": 1, "progress": False}
        r3 = rng_from(int(seed) ^ 0xE3CEF)
        if r3.uniform() < 0.4:
            # every forwarded option away from its default at once: a ramp with a non-linear rate
            lo = float(np.round(r3.uniform(0.3, 0.5), 3))
            sk.pop("n_steps", None)
            sk["adaptive"] = True
            sk["target_efficiency"] = [lo, float(np.round(r3.uniform(lo + 0.25, 0.95), 3))]
            sk["target_efficiency_rate"] = float(pick(r3, [0.5, 2.0, 3.0]))
            mode = "adaptive_ramp"
        scn["rng_route"] = "none"
        if scn["xp"] == "jax" and scn["preconditioning"] == "none":
            scn["preconditioning"] = "default"  # observation in DESIGN 7.3: that cell raises in IdentityTransform
        extra = extra + "+emcee_smc"
    scn["_schedule_mode"] = mode + ("+" + extra if extra != "none" else "")
    return scn


def gen_cases(prop, seed, tier):
    n = 700 if tier == "quick" else 12000
    cases = []
    for i in range(n):
        ss = stream_seeds(seed, prop, i)
        cases.append({"run_index": i, "scenario_seed": ss["scenario"], "tier": tier})
    for k in range(40 if tier == "quick" else 1200):
        ss = stream_seeds(seed, prop, 200000 + k)
        cases.append({"run_index": 200000 + k, "kind": "changed_resume", "scenario_seed": ss["scenario"], "tier": tier})
    # fixed schedules: n_steps enumerated completely (1..100) in the thorough tier, 1..24 in quick
    top = 100 if tier == "thorough" else 24
    for k in range(1, top + 1):
        ss = stream_seeds(seed, prop, 100000 + k)
        cases.append({"run_index": 100000 + k, "scenario_seed": ss["scenario"], "tier": tier,
                      "force": {"n_steps": k, "kind": "gauss_box"}})
    from . import c05_blackjax

    for c in c05_blackjax.cases(prop, seed, tier, n_quick=10, n_thorough=160, base=300000):
        cases.append({**c, "schedule_case": True})
    # interleave the three kinds (a wall-clock budget may cut the list short on a loaded machine: every kind should
    # still have been sampled in proportion)
    kinds = [[c for c in cases if c["run_index"] < 100000], [c for c in cases if 100000 <= c["run_index"] < 200000],
             [c for c in cases if 200000 <= c["run_index"] < 300000], [c for c in cases if c["run_index"] >= 300000]]
    total = len(cases)
    out, pos = [], [0, 0, 0, 0]
    for i in range(total):
        # pick the kind that is furthest behind its proportional share
        j = max(range(4), key=lambda q: (len(kinds[q]) * (i + 1) / total - pos[q]) if pos[q] < len(kinds[q]) else -1e9)
        out.append(kinds[j][pos[j]])
        pos[j] += 1
    return out


def scenario_of(case):
    if "scenario" in case:
        return case["scenario"]
    if case.get("kind") == "blackjax":
        from . import c05_blackjax

        return c05_blackjax.scenario(case)
    if case.get("kind") == "changed_resume":
        return {"sample_kwargs": {}, "target": {"kind": "n/a"}}
    return draw_case_scenario(case["scenario_seed"], case["tier"], case.get("force"))


def run_schedule_case(case, workdir, want):
    if case.get("kind") == "changed_resume":
        return run_changed_resume_case(case, workdir) if "c06" in want else {"violations": [], "evaluations": 1, "nontrivial_keys": [], "digest": "skip"}
    scn = scenario_of(case)
    if case.get("kind") == "blackjax":
        from . import c05_blackjax

        return c05_blackjax.judge_schedule(case, workdir, scn, want)
    tier = case.get("tier", "quick")
    _skw = scn["sample_kwargs"]["sampler_kwargs"]
    ks = _skw.get("n_steps", _skw.get("nsteps", 1))
    max_iter = case.get("max_iter", MAX_ITER[tier])
    stop_after = (2 + max_iter * (ks + 2)) * (2 if scn.get("first_call") else 1)
    res = run_process(scn, workdir, stop_after=stop_after, fresh_file=True)
    out = {"violations": [], "evaluations": 1, "events": len(res.trace.events), "probes": {}, "faults_fired": {}}
    if scn.get("first_call"):
        out["faults_fired"]["sampler_object_reused"] = 1
        if not any(k == "first_call_done" for _, k, _ in res.trace.events):
            # the PRELIMINARY call did not finish: nothing about the judged call is known
            fk = {k: v for k, v in scn["first_call"].items() if k != "sampler_kwargs"}
            if res.status == "error" and "c06" in want:
                out["violations"].append(O.violation(
                    "c06.raises", f"valid schedule options {fk} made the run raise {res.error}",
                    {**O.scn_where(scn), "error_type": res.error_type, "call": "preliminary"}, tb=(res.tb or "")[-1800:]))
            else:
                out["aborted"] = {"why": "preliminary call on the reused sampler did not finish", "status": res.status, "error": res.error}
            out["nontrivial_keys"] = []
            out["digest"] = digest_of([res.status, res.error])
            return out
    h = res.history
    n_iter = len(h.beta) if h is not None and hasattr(h, "beta") else 0
    out["iterations"] = n_iter
    sk = scn["sample_kwargs"]
    where = O.scn_where(scn)
    V = out["violations"]
    probes = out["probes"]
    degenerate = False
    if res.status == "error" and h is not None and getattr(h, "sample_history", None):
        import numpy as _np

        from ..core import to_np as _to_np

        p0 = h.sample_history[-1]
        tot = _np.asarray(_to_np(p0.log_likelihood), dtype=float) + _np.asarray(_to_np(p0.log_prior), dtype=float)
        x_last = _np.asarray(_to_np(p0.x), dtype=float)
        # no particle has a non-zero target density (every incremental weight is exactly zero), or the population has
        # collapsed onto a single point: the problem handed to the schedule is degenerate, whatever the options
        degenerate = bool(not _np.any(_np.isfinite(tot))) or bool(len(x_last) > 1 and _np.all(x_last == x_last[0]))
    if res.status == "error" and degenerate:
        out["aborted"] = {"why": "degenerate population (all weights zero or a single repeated particle)", "error": res.error}
        probes["degenerate_population"] = 1
    elif res.status == "error":
        if "c06" in want:
            V.append(
                O.violation(
                    "c06.raises",
                    f"valid schedule options {{{', '.join(f'{k}={v}' for k, v in sk.items() if k != 'sampler_kwargs')}}} "
                    f"made the run raise {res.error}",
                    {**where, "error_type": res.error_type}, tb=(res.tb or "")[-1800:],
                )
            )
        else:
            out["aborted"] = {"why": "run raised", "error": res.error}
    elif res.status == "stopped":
        out["faults_fired"]["liveness_stop"] = 1
        beta = [float(b) for b in h.beta]
        stuck = [i for i in range(1, len(beta)) if not beta[i] > beta[i - 1]]
        if "c06" in want:
            if stuck or (beta and not beta[0] > 0.0):
                i = stuck[0] if stuck else 0
                V.append(
                    O.violation(
                        "c06.no_progress",
                        f"run spins without progress: after {n_iter} iterations beta={beta[-1]!r}; iteration {i + 1} "
                        f"did not advance the temperature (stopped by the harness after {max_iter} iterations)",
                        {**where, "stuck_at_zero": bool(beta[-1] == 0.0)}, n_iter=n_iter, last=beta[-1],
                    )
                )
            else:
                probes["stopped_but_progressing"] = 1
        else:
            out["aborted"] = {"why": "stopped by liveness bound", "n_iter": n_iter}
    if "c06" in want and res.status in ("ok", "stopped"):
        vs = O.check_schedule(res, scn)
        if res.status == "stopped":
            vs = [v for v in vs if v["oracle"] not in ("c06.not_increasing",)] if any(
                v["oracle"] == "c06.no_progress" for v in V) else vs
        V += vs
    if "c07" in want and res.status in ("ok", "stopped"):
        vs, st = O.check_bisection(res, scn)
        V += vs
        for k, v in st.items():
            if v:
                probes["c07." + k] = v
    if res.status == "ok":
        beta = [float(b) for b in h.beta]
        if sk.get("max_n_steps") is not None and n_iter == sk["max_n_steps"]:
            probes["stopped_at_cap"] = 1
            if beta[-1] < 1.0:
                probes["cap_reached_below_one"] = 1
        if len(beta) > 1 and beta[-1] == 1.0 and sk.get("min_step") is not None:
            probes["min_step_run"] = 1
    key = [scn["_schedule_mode"], scn["target"]["kind"], scn["xp"], scn["dtype"], min(n_iter, 12), res.status]
    out["nontrivial_keys"] = [key] if n_iter >= 1 else []
    out["digest"] = digest_of([res.summary().get("h.beta"), res.status, [(v["oracle"], v["message"]) for v in V]])
    out["sample"] = jsonable({
        "schedule_options": {k: v for k, v in sk.items() if k != "sampler_kwargs"},
        "target": scn["target"]["kind"], "dims": scn["target"]["dims"], "n_samples": scn["n_samples"],
        "xp": scn["xp"], "dtype": scn["dtype"], "status": res.status, "n_iter": n_iter,
        "beta": (res.summary().get("h.beta") or [])[:12],
    })
    return out


def run_changed_resume_case(case, workdir):
    """A run that stops early (crash after a checkpoint, or the step cap) is continued with a DIFFERENT schedule:
    the combined temperature sequence must still be strictly increasing, within (0, 1] and end at exactly 1."""
    import copy
    import pickle

    rng = rng_from(case["scenario_seed"])
    t = make_target(pick(rng, ["gauss_box", "hug", "bimodal"]), int(pick(rng, [1, 2])), rng)
    first = pick(rng, ["fixed", "capped"])
    sk1 = {"sampler_kwargs": {"n_steps": 1}}
    if first == "fixed":
        sk1.update(adaptive=False, n_steps=int(rng.integers(3, 9)))
    else:
        sk1.update(adaptive=True, min_step=float(pick(rng, [0.01, 0.05])), max_n_steps=int(rng.integers(1, 4)), target_efficiency=0.9)
    scn = default_scenario(t, n_samples=int(rng.integers(16, 48)), sample_kwargs=sk1, checkpoint={"mode": "callback", "every": 1},
                           train={"n": 200, "shift": float(rng.uniform(1.5, 3.0)), "widen": 1.2}, rng_route="top",
                           seeds={"rng": int(rng.integers(1 << 30)), "entropy": int(rng.integers(1 << 30)), "train": int(rng.integers(1 << 30)), "torch": 1})
    out = {"violations": [], "evaluations": 1, "events": 0, "probes": {}, "faults_fired": {}, "nontrivial_keys": []}
    r1 = run_process(scn, workdir, fresh_file=True, crash=("like", int(rng.integers(4, 12)), "interrupt") if first == "fixed" else None)
    out["events"] += len(r1.trace.events)
    if not r1.payloads:
        out["digest"] = digest_of(["no checkpoint", r1.status])
        return out
    payload = r1.payloads[-1][2]
    st = pickle.loads(payload)
    b0 = float(st["meta"]["beta"])
    if b0 >= 1.0:
        out["digest"] = digest_of(["already finished"])
        return out
    scn2 = copy.deepcopy(scn)
    sk2 = {"sampler_kwargs": {"n_steps": 1}, "adaptive": False, "n_steps": int(pick(rng, [5, 7, 10, 16, 40]))}
    v2 = int(rng.integers(3))
    if v2 == 0:
        sk2 = {"sampler_kwargs": {"n_steps": 1}, "adaptive": True, "target_efficiency": 0.6}
    elif v2 == 1:
        # the continuation asks for its own minimum step (a demanding ESS target keeps the feasible steps below it)
        sk2 = {"sampler_kwargs": {"n_steps": 1}, "adaptive": True, "target_efficiency": float(pick(rng, [0.9, 0.97])),
               "min_step": float(pick(rng, [0.2, 0.25, 0.34]))}
    scn2["sample_kwargs"] = sk2
    r2 = run_process(scn2, workdir, resume=("bytes", payload), proc_no=1, stop_after=2 + 300 * 3)
    out["evaluations"] += 1
    out["events"] += len(r2.trace.events)
    out["faults_fired"]["restart:bytes_with_changed_schedule"] = 1
    where = {**O.scn_where(scn2), "first_schedule": first, "resumed_at": b0}
    V = out["violations"]
    if r2.status == "error":
        V.append(O.violation("c06.raises", f"continuing at beta={b0!r} with schedule options {sk2} raised {r2.error}", {**where, "error_type": r2.error_type}))
    elif r2.history is not None and hasattr(r2.history, "beta"):
        beta = [float(b) for b in r2.history.beta]
        prev = 0.0
        for i, b in enumerate(beta):
            if not b > prev:
                V.append(O.violation("c06.not_increasing", f"continuation with a changed schedule: beta[{i}]={b!r} does not exceed the previous temperature {prev!r} "
                                     f"(sequence {beta[:8]})", where, index=i))
                break
            if not 0.0 < b <= 1.0:
                V.append(O.violation("c06.out_of_range", f"continuation with a changed schedule: beta[{i}]={b!r} outside (0, 1]", where))
                break
            prev = b
        if r2.status == "ok" and beta and beta[-1] != 1.0:
            V.append(O.violation("c06.end_not_one", f"continuation with a changed schedule finished at beta={beta[-1]!r}", where))
        if sk2.get("min_step") is not None and sk2.get("max_n_steps") is None:
            # an explicit minimum step is honoured by every step the continuation itself takes (all but the clamped last)
            n0 = int(st.get("iteration") or 0)
            bprev = b0
            for i, b in enumerate(beta[n0:]):
                if b - bprev < float(sk2["min_step"]) * (1 - 1e-12) and b != 1.0:
                    V.append(O.violation("c06.min_step", f"continuation at beta={b0!r} with min_step={sk2['min_step']}: its step {i} advanced beta by "
                                         f"{b - bprev!r} (sequence {beta[n0:n0 + 6]})", {**where, "continuation": True}, index=i, step=b - bprev))
                    break
                bprev = b
            out["probes"]["continuation_with_explicit_min_step"] = 1
        if r2.status == "stopped":
            V.append(O.violation("c06.no_progress", f"continuation with a changed schedule did not terminate within 300 iterations (beta={beta[-1] if beta else None!r})", where))
        out["nontrivial_keys"] = [["changed_resume", first, sk2.get("adaptive"), sk2.get("n_steps")]]
        out["iterations"] = len(beta)
    out["digest"] = digest_of([r2.summary().get("h.beta"), [(v["oracle"]) for v in V]])
    out["sample"] = jsonable({"first": sk1, "resumed_at_beta": b0, "continued_with": sk2, "beta": (r2.summary().get("h.beta") or [])[:12]})
    return out


def shrink_candidates(case):
    import copy

    if case.get("kind") == "blackjax":
        return []

    from .common import shrink_scenario_candidates

    scn = scenario_of(case)
    base = {k: v for k, v in case.items() if k not in ("scenario",)}
    out = []
    for s in shrink_scenario_candidates(scn):
        out.append({**base, "scenario": s})
    for key in ("n_final_samples", "target_efficiency_rate"):
        if key in scn["sample_kwargs"]:
            s = copy.deepcopy(scn)
            s["sample_kwargs"].pop(key)
            out.append({**base, "scenario": s})
    if case.get("max_iter", 250) > 40:
        out.append({**base, "scenario": scn, "max_iter": 40})
    return out
