"""C16 -- slicing, concatenating, pickling and dict-converting samples keep rows aligned."""

from ..machines import c16 as machine
from . import machine_common as mc

ID = "C16"
LEVEL = "exploration"
RULE = (
    "operation sequences from a seeded Hypothesis stateful machine over a pool of sample sets (BaseSamples / Samples / "
    "SMCSamples x numpy/torch/jax x dtype None/float32/float64 x every optional-field subset x attached evidence), each "
    "shadowed by a plain dict-of-numpy-arrays model: select by slice / stepped slice / boolean mask (numpy or native) / index "
    "array with repeats, split into a partition and concatenate, pickle.dumps/loads (the checkpoint wire format, protocols "
    "2/4/5), to_dict/from_dict flat and nested; results go back into the pool so operations compose. After each op every "
    "per-sample field incl. log_w/weights must equal the model's same selection, attached evidence must be carried by selection, "
    "namespace/dtype/parameters preserved. This is the reference-model half of the technique with an empty fault space (the only "
    "hop is the pickle boundary a checkpoint crosses). evaluations = sequences; non-trivial key = (op kind, class, namespace, "
    "width, field subset); distinct_nontrivial counts distinct keys."
)
ASSUMPTIONS = ["integer indexing is not generated (numpy models it as a 1-D row, which the sample classes do not claim to support)",
               "after concatenate only rows and weights are compared (the statement promises carried evidence for selection only)"]
COMPONENTS = {"real": ["aspire.samples.BaseSamples / Samples / SMCSamples (__getitem__, concatenate, __getstate__/__setstate__, to_dict/from_dict)", "pickle"],
              "stub": [], "not_run": ["HDF5 paths (C13)"]}
BUDGET_S = {"quick": 70, "thorough": 1200}


def gen_cases(seed, tier):
    return mc.gen_cases(ID, seed, tier, n_quick=64, n_thorough=480, ex_quick=60, ex_thorough=250, steps=12)


def run_case(case, workdir):
    return mc.run_case(machine, case, workdir)


def aggregate(outcomes):
    return {"distinct_op_sequences": sum(o.get("distinct_sequences", 0) for o in outcomes)}
