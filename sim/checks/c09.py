"""C09 -- resampling selects by incremental weight and copies particles intact."""

from __future__ import annotations

import numpy as np

from .. import model as M
from .. import oracles as O
from ..core import digest_of, jsonable, rng_from, stream_seeds, to_np
from ..rng import LAST_CHOICE_REQUEST, make_generator
from ..runner import run_process
from ..swarm import draw_smc_scenario
from . import runs
from .common import shrink_scenario_candidates

ID = "C09"
LEVEL = "exploration"
RULE = (
    "case = one whole SMC run whose generator is a SimGenerator owned by the simulator (RNG seam). In-run invariant at "
    "every rng.choice call: the probability vector aspire passes must equal the simulator's own normalised incremental "
    "weights of the current stored population for the move beta_prev -> beta_new (uniform and size n_final_samples for the "
    "final enlargement), size must be the requested size, and the coordinates the kernel then starts from (seen at the "
    "model seam) must be exactly rows idx of that population. Field integrity: on EVERY population the run stored, the "
    "public SMCSamples.resample is called with a SimGenerator whose answers are adversarial index vectors (all-equal, "
    "reversed, random with repeats, different size) and random (beta', n): x / log_likelihood / log_prior / log_q of output "
    "row j must equal source row idx[j], beta == beta', length == n. evaluations = choice calls judged + adversarial "
    "resamples; non-trivial = run with >= 1 judged choice; distinct_nontrivial counts distinct (namespace, dtype, "
    "preconditioning, schedule mode, n_final kind) tuples."
)
ASSUMPTIONS = ["stub kernel/proposal/model; the generator seam is numpy.random.Generator.choice as aspire calls it"]
COMPONENTS = runs.COMPONENTS
BUDGET_S = {"quick": 80, "thorough": 1500}


def gen_cases(seed, tier):
    n = 300 if tier == "quick" else 6000
    out = []
    for i in range(n):
        ss = stream_seeds(seed, ID, i)
        out.append({"run_index": i, "scenario_seed": ss["scenario"], "fault_seed": ss["faults"], "tier": tier})
    return out


def scenario_of(case):
    if "scenario" in case:
        return case["scenario"]
    quick = case["tier"] == "quick"
    scn = draw_smc_scenario(
        case["scenario_seed"], xps=("numpy", "torch", "jax"), dtypes=(None, None, "float64", "float32"),
        particles=(10, 40) if quick else (10, 120), kernel_steps=(1, 2), checkpoint_modes=("none",),
        rng_routes=("top", "sample"), offset_prob=0.15,
    )
    if scn["rng_route"] == "sample":
        scn["api"] = "sampler"
    return scn


def run_case(case, workdir):
    scn = scenario_of(case)
    where = O.scn_where(scn)
    V, probes = [], {}
    holder = {}
    calls = []

    def before(A, res):
        holder["A"] = A
        holder["res"] = res

    def sampler_now():
        res = holder["res"]
        return res.sampler or holder["A"].sampler or getattr(res, "_smp", None)

    def on_choice(a, size, p, idx):
        A = holder["A"]
        smp = A.sampler
        if smp is None:  # sampler driven directly: find it through the kernel seam
            smp = holder.get("smp")
        h = None if smp is None else smp.history
        rec = {"n": int(a), "size": None if size is None else int(size), "p": None if p is None else np.array(p, dtype=np.float64),
               "replace": LAST_CHOICE_REQUEST.get("replace"),
               "idx": np.array(idx), "evals_before": len(holder["res"].seam.evals)}
        if h is not None and h.sample_history:
            pop = h.sample_history[-1]
            rec["pop"] = tuple(np.asarray(to_np(v), dtype=np.float64) for v in (pop.x, pop.log_likelihood, pop.log_prior, pop.log_q))
            rec["pop_beta"] = float(pop.beta)
            rec["betas"] = [float(to_np(b)) for b in h.beta]
            rec["bits"] = 32 if "32" in str(pop.x.dtype) else 64
        calls.append(rec)

    if scn.get("api") == "sampler":
        # the sampler object is created inside run_process; reach it through the aspire instance's init_sampler result
        import sim.runner as R

        orig = None

        def before2(A, res):
            before(A, res)
            real_init = A.init_sampler

            def init_sampler(*a, **k):
                smp = real_init(*a, **k)
                holder["smp"] = smp
                return smp

            A.init_sampler = init_sampler

        bs = before2
    else:
        bs = before
    r = run_process(scn, workdir, fresh_file=True, on_choice=on_choice, record_kernel=True, before_sample=bs)
    if r.status != "ok":
        return {"violations": [], "aborted": {"why": "run did not finish", "error": r.error, "tb": (r.tb or "")[-1200:]},
                "evaluations": 1, "events": len(r.trace.events), "nontrivial_keys": [], "digest": digest_of(r.status)}
    n_final = scn["sample_kwargs"].get("n_final_samples")
    judged = 0
    for ci, c in enumerate(calls):
        if "pop" not in c:
            continue
        x, ll, lp, lq = c["pop"]
        bits = c["bits"]
        betas = c["betas"]
        # the call after the last iteration is the final enlargement: it moves the last population (which may sit below 1
        # when the run stopped at the step cap) to beta = 1 with n_final_samples draws
        n_it_now = len(betas)
        enlargement = (n_final is not None and n_final != scn["n_samples"] and ci == len(calls) - 1
                       and ci >= n_it_now and c["pop_beta"] == (betas[-1] if betas else None))
        b0 = c["pop_beta"]
        b1 = 1.0 if enlargement else betas[-1]
        want_p = M.norm_weights(M.incr_logw(ll, lp, lq, b0, b1))
        want_size = n_final if enlargement else len(x)
        wc = {**where, "call": "final_enlargement" if enlargement else "iteration"}
        if O.f32_unresolvable(bits, ll, lp, lq, scale=(b1 - b0), limit=1e-2):
            probes["unresolvable_in_float32"] = probes.get("unresolvable_in_float32", 0) + 1
            continue
        judged += 1
        if c["n"] != len(x):
            V.append(O.violation("c09.population_size", f"choice over {c['n']} items but the population has {len(x)} particles", wc))
        if c.get("replace") is not True:
            # every new particle is an independent draw from the weighted population: the same source row may be drawn many times
            V.append(O.violation("c09.without_replacement", f"resampling call {ci} asked the generator for {c['size']} of {c['n']} indices WITHOUT "
                                 f"replacement: the draws are not independent selections by incremental weight", wc, size=c["size"], n=c["n"]))
        if c["size"] != want_size:
            V.append(O.violation("c09.size", f"resampling call {ci} requested {c['size']} draws, expected {want_size}", wc, got=c["size"], want=want_size))
        tol = dict(rtol=1e-3, atol=1e-5) if bits == 32 else dict(rtol=1e-9, atol=1e-13)
        if c["p"] is None or c["p"].shape != want_p.shape or not np.allclose(c["p"], want_p, **tol):
            dev = None if c["p"] is None or c["p"].shape != want_p.shape else float(np.max(np.abs(c["p"] - want_p)))
            V.append(O.violation(
                "c09.probabilities",
                f"resampling call {ci} (move {b0!r} -> {b1!r}): the probability vector handed to the generator is not the "
                f"normalised incremental weights of the current population (max abs deviation {dev})", wc, max_dev=dev))
        # kernel start positions == rows idx of the population
        ev = [e for e in r.seam.evals[c["evals_before"]:] if e["kind"] == "chain0"]
        if ev and ev[0]["prior"] is not None:
            x_start = np.asarray(ev[0]["prior"][0], dtype=np.float64)
            x_want = x[c["idx"]]
            width = np.asarray(scn["target"]["upper"]) - np.asarray(scn["target"]["lower"])
            # the bounded forward map clips to [eps, 1-eps] of the unit interval (documented margin, eps=1e-6):
            # a particle closer than that to a bound legitimately restarts up to eps*width away
            atol = (2e-4 if bits == 32 else 3e-6) * width
            per = np.array([f == "vm" for f in scn["target"]["factor"]])
            if x_start.shape == x_want.shape and not np.all(np.isfinite(x_start)) and np.any(np.ptp(x_want, axis=0) == 0):
                # the drawn rows are all copies of ONE source particle in some coordinate: a whitening fitted on them divides
                # by a zero spread and the kernel's start is undefined (0/0).  What the draw itself did was judged above;
                # where the mutation starts from is not defined for this population, so it is not judged (DESIGN 7.3)
                probes["kernel_start_degenerate_population"] = probes.get("kernel_start_degenerate_population", 0) + 1
                continue
            d = np.abs(x_start - x_want)
            if per.any():
                d[:, per] = np.minimum(d[:, per], np.abs(width[per] - d[:, per]))
            if x_start.shape != x_want.shape or not np.all(d <= atol + 1e-9 * np.abs(x_want)):
                V.append(O.violation(
                    "c09.kernel_start",
                    f"after resampling call {ci} the kernel did not start from rows idx of the resampled population "
                    f"(max abs deviation {float(np.max(d)) if x_start.shape == x_want.shape else 'shape'})", wc))
            else:
                probes["kernel_start_rows_checked"] = probes.get("kernel_start_rows_checked", 0) + 1
    n_it = len(r.history.beta)
    want_calls = n_it + (1 if (n_final is not None and n_final != scn["n_samples"]) else 0)
    if len(calls) != want_calls:
        V.append(O.violation("c09.resample_count",
                             f"{n_it} iterations{' plus the final enlargement' if want_calls > n_it else ''} but the generator was asked for resampling indices "
                             f"{len(calls)} times", where, calls=len(calls), iterations=n_it))
    # ---- field integrity with adversarial answers on every stored population
    rng = rng_from(case["fault_seed"])
    n_adv = 0
    for pi, pop in enumerate(r.history.sample_history):
        n = len(pop.x)
        for mode in ("all_equal", "reversed", "repeats", "resize", "tiny_step"):
            size = n if mode != "resize" else int(rng.integers(1, 2 * n + 1))
            if mode == "all_equal":
                idx = np.full(size, int(rng.integers(n)))
            elif mode == "reversed":
                idx = np.arange(n)[::-1].copy()
            else:
                idx = rng.integers(0, n, size=size)
            g = make_generator(1)
            g.choice_hook = lambda a, s, p, _idx=idx: _idx
            b_new = float(rng.uniform(float(pop.beta) + 1e-3, 1.5))
            if mode == "tiny_step":
                # a genuine but tiny temperature move (what the forced minimal-progress step of a peaked problem produces)
                b_new = float(pop.beta) + float(rng.choice([1e-9, 1e-6, 4e-6, 1e-5]))
                if b_new == float(pop.beta):
                    continue
            try:
                n_arg = None if mode in ("reversed", "tiny_step") else size
                n_draws_before = g.n_draws
                out = pop.resample(b_new, n_samples=n_arg, rng=g)
                if g.n_draws != n_draws_before and LAST_CHOICE_REQUEST.get("replace") is not True:
                    V.append(O.violation("c09.without_replacement", f"resample(beta={b_new!r}, n_samples={n_arg}) of stored population {pi} ({n} particles) "
                                         f"asked the generator for indices WITHOUT replacement", {**where, "mode": mode}))
                if g.n_draws == n_draws_before:
                    V.append(O.violation(
                        "c09.no_draw",
                        f"resample(beta={b_new!r}) of stored population {pi} at beta={float(pop.beta)!r} never asked the generator for indices: "
                        f"a genuine temperature move was not resampled", {**where, "mode": mode, "step": b_new - float(pop.beta)}))
                    continue
            except Exception as e:  # noqa: BLE001
                V.append(O.violation("c09.resample_raised", f"SMCSamples.resample raised on stored population {pi}: {type(e).__name__}: {e}", where))
                continue
            n_adv += 1
            ok = len(out.x) == size and float(out.beta) == b_new
            if not ok:
                V.append(O.violation("c09.size_or_beta", f"resample(beta={b_new}, n={size}) returned {len(out.x)} particles at beta={out.beta}", where))
                continue
            for name in ("x", "log_likelihood", "log_prior", "log_q"):
                got = to_np(getattr(out, name))
                src = to_np(getattr(pop, name))[idx]
                if got.shape != src.shape or not np.array_equal(got, src, equal_nan=True):
                    V.append(O.violation(
                        "c09.row_integrity",
                        f"resample with index vector kind '{mode}' on stored population {pi}: field {name} of the output rows is not "
                        f"the field of source rows idx", {**where, "field": name, "mode": mode}))
                    break
            if type(out.x).__module__.split(".")[0] != type(pop.x).__module__.split(".")[0]:
                V.append(O.violation("c09.namespace", "resampled population changed namespace", where))
    nf_kind = "none" if n_final is None else ("smaller" if n_final < scn["n_samples"] else "larger")
    return {
        "violations": V, "aborted": None, "evaluations": judged + n_adv, "events": len(r.trace.events),
        "iterations": len(r.history.beta), "probes": {**probes, "choice_calls_judged": judged, "adversarial_resamples": n_adv},
        "faults_fired": {"adversarial_choice_answer": n_adv},
        "nontrivial_keys": [[scn["xp"], scn["dtype"], scn["_precond"], scn["_schedule_mode"], nf_kind]] if judged else [],
        "digest": digest_of([r.summary(), [(v["oracle"], v["message"]) for v in V]]),
        "sample": jsonable({"xp": scn["xp"], "dtype": scn["dtype"], "n_samples": scn["n_samples"], "n_final": n_final,
                            "choice_calls": [{"n": c["n"], "size": c["size"], "p_head": None if c["p"] is None else c["p"][:4]} for c in calls[:3]]}),
    }


def shrink_candidates(case):
    scn = scenario_of(case)
    base = {k: v for k, v in case.items() if k != "scenario"}
    return [{**base, "scenario": s} for s in shrink_scenario_candidates(scn) if s["checkpoint"]["mode"] == "none"]
