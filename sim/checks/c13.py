"""C13 -- saved samples, histories, transforms, flows and configuration reload unchanged."""

from __future__ import annotations

import json
import os

import numpy as np

from ..core import digest_of, jsonable, rng_from, stream_seeds, to_np
from ..harness import violation
from ..machines import c13 as machine
from . import machine_common as mc

ID = "C13"
LEVEL = "exploration"
RULE = (
    "(machine) operation sequences from a seeded Hypothesis stateful machine that treats one HDF5 file as a key->object store "
    "with an in-memory model of what was put where: save a sample set (3 classes x 3 namespaces x 3 dtypes x every optional-field "
    "subset x flat/nested x named/unnamed parameters), an SMCHistory with populations / a FlowHistory, a transform (Identity, "
    "Periodic, Probit, Logit, Affine, Composite, FlowTransform; option subsets; fitted or not), a dictionary with None / {} / nested "
    "dicts / string lists / numpy scalars and arrays, an Aspire configuration + proposal (bounds, periodic parameters, bounded "
    "transform, eps, namespace given or inferred, dtype, flow options); restart (nothing survives in memory); load any stored key; at "
    "the end every stored key is reloaded. Oracle: observational equality with the model (values, names, namespace, dtype, optional "
    "fields; same forward/inverse maps and log-Jacobians on probe points; same settings and proposal for an instance rebuilt with "
    "resume_from_file). (flows) explicit cases save and reload real zuko and flowjax flows (untrained / trained, float32/float64, "
    "bounded transform variants) and compare log_prob on probe points. evaluations = sequences + flow cases; non-trivial key = "
    "(object kind, class, namespace, width, fields, layout); distinct_nontrivial counts distinct keys."
)
ASSUMPTIONS = ["fault-free round trips only (the statement is about those); the only 'fault' is the restart", "container types are not compared (a series may come back as an array)"]
COMPONENTS = {"real": ["aspire.utils (encode/decode, recursively_save_to_h5_file, load_from_h5_file, AspireFile)", "Samples/SMCSamples/BaseSamples.save/load",
                       "SMCHistory/FlowHistory.save/load", "every transform class save/load", "Aspire.save_config/save_flow/resume_from_file",
                       "ZukoFlow.save/load", "FlowJax.save/load", "h5py"],
              "stub": ["SimFlow (for the configuration round trip)"], "not_run": ["FlowPreconditioningTransform.save (NotImplemented upstream)"]}
BUDGET_S = {"quick": 85, "thorough": 1500}


def gen_cases(seed, tier):
    cases = mc.gen_cases(ID, seed, tier, n_quick=24, n_thorough=400, ex_quick=40, ex_thorough=150, steps=8)
    i = len(cases)
    quick = tier == "quick"
    variants = {
        "zuko": [{"flow_class": "MAF", "transforms": 2, "hidden_features": [8, 8]}, {"flow_class": "NSF", "transforms": 1, "hidden_features": [8]},
                 {"flow_class": "MAF", "transforms": 3, "hidden_features": [6, 6, 6]}],
        "flowjax": [{"flow_layers": 2, "nn_width": 8}, {"flow_layers": 2, "nn_width": 8, "nn_depth": 2},
                    {"flow_type": "coupling_flow", "flow_layers": 2, "nn_width": 8, "nn_depth": 3}, {"flow_layers": 3, "nn_width": 6, "nn_depth": 3}],
    }
    k = 0
    for backend in ("zuko", "flowjax"):
        for vi, var in enumerate(variants[backend]):
            for trained in ((bool(vi % 2),) if quick else (False, True)):
                for dtype in ((None,) if quick else (None, "float32", "float64")):
                    for bt in ((("logit", "probit", None)[vi % 3],) if quick else ("logit", "probit", None)):
                        ss = stream_seeds(seed, ID, 10000 + i)
                        # dims 1-5: above 2 dimensions flowjax inserts key-dependent permutation layers (integer state)
                        cases.insert(k, {"run_index": 10000 + i, "flow_case": True, "backend": backend, "variant": var, "trained": trained, "dtype": dtype,
                                         "bounded_transform": bt, "seed": ss["scenario"] % (1 << 30), "tier": tier,
                                         "dims": (3, 2, 5, 4, 1, 3)[k % 6]})
                        i += 1
                        k += 1
    return cases


def run_flow_case(case, workdir):
    from aspire import Aspire
    from aspire.samples import Samples
    from aspire.utils import AspireFile

    from ..env import Model, SimLikelihood, SimPrior, make_target
    from .c20 import FLOWS

    rng = rng_from(case["seed"])
    d = int(case.get("dims", 2))
    t = make_target("gauss_box", d, rng)
    m = Model(t)
    fl, fit = FLOWS[case["backend"]]
    fl = dict(fl)
    backend = fl.pop("backend")
    if case.get("variant"):
        for k_ in ("flow_class", "transforms", "hidden_features", "flow_layers", "nn_width", "nn_depth", "flow_type"):
            fl.pop(k_, None)
        fl.update(case["variant"])
    if "key_seed" in fl:
        import jax

        jax.config.update("jax_enable_x64", True)
        fl["key"] = jax.random.key(int(fl.pop("key_seed")))
    A = Aspire(log_likelihood=SimLikelihood(m), log_prior=SimPrior(m), dims=d, parameters=t.parameters, prior_bounds=t.prior_bounds,
               bounded_to_unbounded=case["bounded_transform"] is not None, bounded_transform=case["bounded_transform"] or "logit",
               flow_backend=backend, dtype=case["dtype"], **fl)
    lo, hi = np.asarray(t.lower), np.asarray(t.upper)
    x = lo + (hi - lo) * rng.uniform(0.2, 0.8, size=(200, d))
    if case["trained"]:
        A.fit(Samples(x, parameters=t.parameters), **fit)
    else:
        A.init_flow()
        A.flow.fit_data_transform(A.flow.xp.asarray(x, dtype=A.flow.dtype))
    probe = lo + (hi - lo) * rng.uniform(0.1, 0.9, size=(32, d))
    lp0 = to_np(A.flow.log_prob(probe))
    path = os.path.join(workdir, "flow.h5")
    with AspireFile(path, "w") as f:
        A.save_flow(f)
        A.save_config(f, include_sampler_config=False)
    V = []
    w = {"kind": "flow", "backend": backend, "trained": case["trained"], "dtype": case["dtype"], "bounded_transform": case["bounded_transform"],
         "variant": case.get("variant"), "dims": d}
    try:
        B = Aspire.resume_from_file(path, log_likelihood=SimLikelihood(m), log_prior=SimPrior(m))
        lp1 = to_np(B.flow.log_prob(probe))
    except Exception as e:  # noqa: BLE001 -- the statement promises that a reload succeeds
        import traceback

        V.append(violation("c13.flow_reload_raised", f"reloading a saved {backend} flow (options {sorted(fl)}) raised {type(e).__name__}: {e}",
                           {**w, "error_type": type(e).__name__}, tb=traceback.format_exc()[-1500:]))
        return {"violations": V, "evaluations": 1, "events": 2, "probes": {}, "faults_fired": {"restart": 1},
                "nontrivial_keys": [["flow", backend, case["trained"], case["dtype"], case["bounded_transform"], json.dumps(case.get("variant"), sort_keys=True), d]],
                "digest": digest_of([lp0, [v["oracle"] for v in V]]), "sample": jsonable({"flow_case": w})}
    bits = 32 if "32" in str(getattr(A.flow, "dtype", lp0.dtype)) or "32" in str(lp0.dtype) else 64
    tol = dict(rtol=1e-4, atol=1e-4) if bits == 32 else dict(rtol=1e-9, atol=1e-9)
    if lp0.shape != lp1.shape or not np.allclose(lp0, lp1, **tol):
        V.append(violation("c13.flow_density", f"{backend} flow ({'trained' if case['trained'] else 'untrained'}, dtype {case['dtype']}): reloaded flow gives a different "
                           f"log_prob on probe points (max dev {float(np.max(np.abs(lp0 - lp1))) if lp0.shape == lp1.shape else 'shape'})", w))
    if str(lp0.dtype) != str(lp1.dtype):
        V.append(violation("c13.dtype", f"{backend} flow: log_prob dtype {lp0.dtype} became {lp1.dtype} after reload", w))
    return {"violations": V, "evaluations": 1, "events": 2, "probes": {"flow_roundtrips": 1}, "faults_fired": {"restart": 1},
            "nontrivial_keys": [["flow", backend, case["trained"], case["dtype"], case["bounded_transform"], json.dumps(case.get("variant"), sort_keys=True), d]],
            "digest": digest_of([lp0, [v["oracle"] for v in V]]), "sample": jsonable({"flow_case": w})}


def run_case(case, workdir):
    if case.get("flow_case"):
        return run_flow_case(case, workdir)
    return mc.run_case(machine, case, workdir)


def aggregate(outcomes):
    return {"distinct_op_sequences": sum(o.get("distinct_sequences", 0) for o in outcomes)}
