"""C05, BlackJAXSMC: the repo's third SMC sampler evaluates its own copy of the tempered target under vmap / scan.

The real ``blackjax`` is absent; the simulator's stand-in (``sim/fakes/blackjax``) implements the random-walk kernel with
jax and exports, through ``jax.debug.callback``, every start position and every (z, value) pair the kernel evaluates.
The user model and the proposal are jax-traceable twins of the numpy ones (``jaxenv.JaxModel``, ``SimFlow(kind="jnative")``).
"""

from __future__ import annotations

import numpy as np

from .. import model as M
from .. import oracles as O
from ..core import SimModelError, Trace, digest_of, entropy_seam, jsonable, rng_from, to_np
from ..env import Target, make_target
from ..rng import make_generator
from ..runner import default_scenario, training_samples
from ..swarm import pick

PKW = {
    "default": None,
    "logit": {"bounded_to_unbounded": True, "bounded_transform": "logit"},
    "probit": {"bounded_to_unbounded": True, "bounded_transform": "probit"},
    "affine": {"affine_transform": True},
    "both_logit": {"bounded_to_unbounded": True, "bounded_transform": "logit", "affine_transform": True},
    "both_probit": {"bounded_to_unbounded": True, "bounded_transform": "probit", "affine_transform": True},
}


def scenario(case):
    rng = rng_from(case["scenario_seed"])
    kind = pick(rng, ["gauss_box", "hug", "periodic", "bimodal"])
    d = int(pick(rng, [1, 2, 3]))
    t = make_target(kind, d, rng)
    j = d - 1
    lo, hi = t.lower[j], t.upper[j]
    w = hi - lo
    if t.factor[j] != "vm":
        t.prior_hole = (j, lo + 0.06 * w, lo + 0.10 * w)
        t.nan_region = (j, lo + 0.015 * w, lo + 0.04 * w)
    pc = pick(rng, list(PKW))
    n = int(rng.integers(10, 25))
    sk = {"sampler_kwargs": {"algorithm": pick(rng, ["rwmh", "random_walk"]), "n_steps": int(rng.integers(1, 3)),
                             "sigma": float(pick(rng, [0.2, 0.5]))}}
    if rng.integers(4) == 0:
        sk["adaptive"] = False
        sk["n_steps"] = int(rng.integers(2, 5))
    else:
        sk["target_efficiency"] = float(np.round(rng.uniform(0.5, 0.9), 3))
    if case.get("schedule_case") and sk.get("adaptive", True) and int(case["run_index"]) % 2:
        # schedule checks: BlackJAXSMC forwards the ramp options to the shared loop by itself
        lo_ = float(np.round(rng.uniform(0.3, 0.5), 3))
        sk["target_efficiency"] = [lo_, float(np.round(rng.uniform(lo_ + 0.25, 0.95), 3))]
        sk["target_efficiency_rate"] = float(pick(rng, [0.5, 2.0, 3.0]))
    nf = pick(rng, ["none", "none", "larger"])
    if nf == "larger":
        sk["n_final_samples"] = n + int(rng.integers(3, 12))
    scn = default_scenario(
        t, n_samples=n, sampler="blackjax_smc", sample_kwargs=sk, xp="jax", dtype=None,
        preconditioning="default", preconditioning_kwargs=PKW[pc],
        flow={"kind": "jnative", "alpha": 0.0, "inflate": float(rng.uniform(1.3, 2.0)), "seed": int(rng.integers(1 << 30))},
        train={"n": 200, "shift": float(rng.uniform(0.3, 1.2)) * float(pick(rng, [-1, 1])), "widen": float(rng.uniform(1.0, 1.4))},
        checkpoint={"mode": "none", "every": 1}, rng_route="ctor",
        seeds={"rng": int(rng.integers(1 << 30)), "entropy": int(rng.integers(1 << 30)), "train": int(rng.integers(1 << 30)),
               "torch": int(rng.integers(1 << 30)), "key": int(rng.integers(1 << 30))},
    )
    scn["_precond"] = pc
    scn["_schedule_mode"] = "fixed" if sk.get("adaptive") is False else "adaptive"
    return scn


def run(case, scn, workdir, crash_at=None, resume=None, collect=False, probes=True):
    import jax
    import jax.numpy as jnp

    jax.config.update("jax_enable_x64", True)
    from aspire import Aspire
    from aspire.samples import Samples

    from ..jaxenv import BlackjaxSeam, JaxModel, install

    rng = rng_from(case["fault_seed"])
    t = Target.from_dict(scn["target"])
    where = O.scn_where(scn)
    sk = dict(scn["sample_kwargs"])
    sk["sampler_kwargs"] = dict(sk["sampler_kwargs"])
    seam = BlackjaxSeam()
    prev = install(seam)
    model = JaxModel(t)
    model.crash_at_concrete_like = crash_at
    payloads = []  # (iteration, pickled checkpoint state) handed to the callback, in order
    calls = []  # resampling calls: population before the draw, indices drawn
    holder = {}
    deferred = []  # (kernel number, probe z, values) evaluated while the kernel's transform is still the fitted one

    def probe_previous_kernel():
        """Evaluate the log-density function of the kernel that has just finished at simulator-chosen points.  Called before
        the next resampling draw (and after the run): the preconditioning has not been refitted since that kernel."""
        if not probes or not seam.kernels or len(deferred) >= len(seam.kernels):
            return
        k = len(seam.kernels) - 1
        rec = seam.kernels[k]
        if not rec["starts"] or k >= len(calls):
            deferred.append(None)
            return
        cm = _cmodel(scn, t)
        x0 = calls[k]["pop_x"][calls[k]["idx"]]
        z0 = np.asarray(rec["starts"])
        if z0.shape != x0.shape:
            deferred.append(None)
            return
        cm.fit(x0, z0)
        pts = []
        n, d = z0.shape
        sd = np.where(z0.std(axis=0) > 0, z0.std(axis=0), 1.0)
        pts.append(z0[: min(n, 6)] + 0.3 * sd * rng.normal(size=(min(n, 6), d)))
        pts.append(z0[: min(n, 3)] + 60.0 * sd * np.sign(rng.normal(size=(min(n, 3), d))))
        for reg in (t.prior_hole, t.nan_region):
            if reg is None:
                continue
            j, a, b = reg
            m = 4
            x = np.array([[rng.uniform(lo + 0.2 * (hi - lo), lo + 0.8 * (hi - lo)) for lo, hi in zip(t.lower, t.upper)] for _ in range(m)])
            x[:, j] = rng.uniform(a + 0.1 * (b - a), b - 0.1 * (b - a), size=m)
            y = cm.pre_affine_forward(x)
            pts.append((y - cm.mean) / cm.std if cm.affine else y)
        zs = np.concatenate(pts, axis=0)
        n_before = len(model.concrete)
        vals = []
        for z in zs:
            vals.append(float(rec["fn"](jnp.asarray(z))))
        seen = model.concrete[n_before:]
        deferred.append({"z": zs, "val": np.asarray(vals), "seen": seen})

    def on_choice(a, size, p, idx):
        probe_previous_kernel()
        smp = holder["A"].sampler
        pop = smp.history.sample_history[-1]
        calls.append({"pop_x": np.asarray(to_np(pop.x), dtype=np.float64), "idx": np.array(idx), "pop_beta": float(pop.beta)})

    g = make_generator(scn["seeds"]["rng"])
    g.on_choice = on_choice
    out = {"status": "ok", "error": None}
    es = entropy_seam(scn["seeds"]["entropy"], Trace())
    es.__enter__()
    try:
        A = Aspire(log_likelihood=model.log_likelihood, log_prior=model.log_prior, dims=t.dims, parameters=t.parameters,
                   prior_bounds=t.prior_bounds, periodic_parameters=t.periodic_parameters or None, xp=jnp,
                   flow_backend="simflow", kind="jnative", seed=scn["flow"]["seed"], inflate=scn["flow"]["inflate"])
        holder["A"] = A
        A.fit(Samples(training_samples(scn), parameters=t.parameters, xp=jnp))
        extra = {}
        if collect or resume is not None:
            import pickle

            def _cb(state):
                payloads.append((state.get("iteration"), pickle.dumps(state, protocol=pickle.HIGHEST_PROTOCOL)))

            extra["checkpoint_callback"] = _cb
            extra["checkpoint_every"] = 1
        if resume is not None:
            extra["resume_from"] = resume
        try:
            samples, hist = A.sample_posterior(
                scn["n_samples"], sampler="blackjax_smc", rng=g, rng_key=jax.random.key(int(scn["seeds"]["key"])),
                preconditioning=scn["preconditioning"], preconditioning_kwargs=scn["preconditioning_kwargs"],
                return_history=True, **extra, **sk)
            jax.effects_barrier()
            probe_previous_kernel()
            out.update(samples=samples, history=hist, flow=A.flow, n_like_reported=A.sampler.n_likelihood_evaluations)
        except SimModelError as e:
            out.update(status="crashed", error=f"{type(e).__name__}: {e}")
        except (ValueError, FloatingPointError) as e:
            out.update(status="failed", error=f"{type(e).__name__}: {e}")
        except Exception as e:  # noqa: BLE001 -- unexpected exception from aspire: classified by the check, like runner.run_process does
            out.update(status="error", error=f"{type(e).__name__}: {e}")
    finally:
        es.__exit__(None, None, None)
        install(prev)
        try:
            # every run traces fresh closures: drop the compiled programs, or a process that runs many of them exhausts its
            # memory mappings ("LLVM ERROR: Unable to allocate section memory")
            jax.clear_caches()
        except Exception:
            pass
    out.update(seam=seam, calls=calls, deferred=deferred, model=model, where=where, payloads=payloads)
    return out


def _cmodel(scn, t):
    kw = scn["preconditioning_kwargs"] or {}
    d = t.dims
    per = np.array([f == "vm" for f in t.factor])
    b2u = bool(kw.get("bounded_to_unbounded", False))
    return M.CompositeModel(t.lower, t.upper, periodic_mask=per, bounded_mask=(~per if b2u else np.zeros(d, bool)),
                            bounded=kw.get("bounded_transform", "logit"), affine=bool(kw.get("affine_transform", False)))


def _want(t, flow, cm, z, beta):
    x, lj = cm.inverse(z)
    with np.errstate(all="ignore"):
        lq = flow._log_density(x)
        lp = t.log_prior(x)
        ll = t.log_like(x)
        want = (1.0 - beta) * lq + beta * (ll + lp) + lj
    want = np.where(np.isneginf(lp), -np.inf, want)
    want = np.where(np.isnan(want), -np.inf, want)
    return x, lp, ll, want


def run_case(case, workdir, scn):
    r = run(case, scn, workdir)
    where = r["where"]
    key = ["blackjax_smc", scn["_precond"], "jax", None]
    if r["status"] != "ok":
        benign = "contains NaN" in (r["error"] or "")
        return {"violations": [], "aborted": {"why": "run did not finish", "error": r["error"], "benign_initial_nan": benign},
                "evaluations": 1, "events": 0, "nontrivial_keys": [], "digest": digest_of(r["status"]),
                "probes": {"initial_population_hit_nan_slab": 1} if benign else {}}
    t = Target.from_dict(scn["target"])
    flow, hist, seam, calls = r["flow"], r["history"], r["seam"], r["calls"]
    hb = [float(to_np(b)) for b in hist.beta]
    V, judged = [], 0
    hits = {"out_of_prior": 0, "prior_hole": 0, "nan_slab": 0, "chain": 0, "probe": 0}
    n_final = scn["sample_kwargs"].get("n_final_samples")
    want_kernels = len(hb) + (1 if (n_final is not None and n_final != scn["n_samples"]) else 0)
    if len(seam.kernels) != want_kernels or len(calls) != want_kernels:
        V.append(O.violation("c05.kernel_count", f"{len(hb)} iterations{' plus the final enlargement' if want_kernels > len(hb) else ''} but "
                             f"{len(seam.kernels)} kernels were built and {len(calls)} resampling draws were made", where))
    rtol, atol = 1e-7, 1e-7
    for k, rec in enumerate(seam.kernels[: len(calls)]):
        if V:
            break
        beta = hb[k] if k < len(hb) else 1.0
        x0 = calls[k]["pop_x"][calls[k]["idx"]]
        z0 = np.asarray(rec["starts"])
        wk = {**where, "stage": "iteration" if k < len(hb) else "final_enlargement"}
        if z0.shape != x0.shape:
            V.append(O.violation("c05.start_positions", f"kernel {k + 1}: {z0.shape} start positions for {x0.shape} resampled particles", wk))
            break
        cm = _cmodel(scn, t)
        if np.any(np.ptp(x0, axis=0) == 0) and cm.affine:
            continue  # collapsed population: the whitening is undefined (DESIGN 7.3)
        zfit = cm.fit(x0, z0)
        dz = np.abs(zfit - z0)
        if cm.pm.any():
            per_w = (np.asarray(t.upper) - np.asarray(t.lower))[cm.pm] / (np.abs(cm.std[cm.pm]) if cm.affine else 1.0)
            dz[:, cm.pm] = np.minimum(dz[:, cm.pm], np.abs(per_w - dz[:, cm.pm]))
        if not np.all(dz <= 1e-6 * (1 + np.abs(z0)) + 1e-6 * (1 + np.abs(z0).max())):
            V.append(O.violation("c05.start_positions", f"kernel {k + 1}: start positions are not the preconditioning image of the resampled "
                                 f"particles (max dev {float(np.max(dz))})", wk))
            break
        groups = [("chain", np.asarray([z for z, _ in rec["evals"]]).reshape(-1, t.dims), np.asarray([v for _, v in rec["evals"]]))]
        dp = r["deferred"][k] if k < len(r["deferred"]) else None
        if dp is not None:
            groups.append(("probe", dp["z"], dp["val"]))
        for gname, z, val in groups:
            if len(z) == 0:
                continue
            x, lp, ll, want = _want(t, flow, cm, z, beta)
            hits[gname] += len(z)
            hits["out_of_prior"] += int(np.sum(np.isneginf(lp) & ~_in_hole(t, x)))
            hits["prior_hole"] += int(np.sum(_in_hole(t, x)))
            hits["nan_slab"] += int(np.sum(np.isnan(ll) & np.isfinite(lp)))
            judged += len(z)
            near_edge = _near_region_edge(t, x)
            bad = ~near_edge & ~np.isclose(val, want, rtol=rtol, atol=atol, equal_nan=False)
            bad &= ~(np.isneginf(val) & np.isneginf(want))
            if bad.any():
                i = int(np.argmax(bad))
                what = "zero prior" if np.isneginf(lp[i]) else ("NaN tempered value" if np.isnan(ll[i]) else "tempered target")
                V.append(O.violation(
                    "c05.blackjax_value" if what == "tempered target" else ("c05.zero_prior_finite" if what == "zero prior" else "c05.nan_propagated"),
                    f"kernel {k + 1} (beta={beta!r}, {gname} point): the log-density BlackJAXSMC handed to the kernel is {float(val[i])!r}; "
                    f"{what}: (1-beta) log q + beta (log L + log pi) + log|det dx/dz| at the pre-image x={np.round(x[i], 6).tolist()} is {float(want[i])!r}",
                    {**wk, "point": gname}, diff=float(val[i] - want[i]) if np.isfinite(val[i]) and np.isfinite(want[i]) else None))
                break
        # eager probes: the x that reached the user's model must be the pre-image of z
        if dp is not None and not V:
            xs = [a for kind, a in dp["seen"] if kind == "like"]
            if len(xs) == len(dp["z"]):
                xseen = np.concatenate(xs, axis=0)
                xm, _ = cm.inverse(dp["z"])
                d = np.abs(xseen - xm)
                if cm.pm.any():
                    wdt = (np.asarray(t.upper) - np.asarray(t.lower))[cm.pm]
                    d[:, cm.pm] = np.minimum(d[:, cm.pm], np.abs(wdt - d[:, cm.pm]))
                ok = np.all(np.isfinite(xm), axis=1)
                if np.any(d[ok] > 1e-6 * (1 + np.abs(xm[ok]))):
                    V.append(O.violation("c05.preimage", f"kernel {k + 1}: the point that reached the user's likelihood is not the pre-image of the "
                                         f"kernel's z (max dev {float(np.nanmax(d[ok]))})", wk))
    probe_kinds = sorted(kk for kk, v in hits.items() if v)
    return {
        "violations": V, "aborted": None, "evaluations": max(judged, 1), "events": judged + len(calls), "iterations": len(hb),
        "probes": {"blackjax_kernels_judged": len(seam.kernels), "blackjax_traced_model_calls": sum(r["model"].n_traced.values()),
                   **{"blackjax_" + kk: v for kk, v in hits.items() if v}},
        "faults_fired": {"kernel_probe": hits["probe"], "zero_prior": hits["out_of_prior"] + hits["prior_hole"], "nan_like": hits["nan_slab"]},
        "nontrivial_keys": [key + [probe_kinds]] if judged else [],
        "digest": digest_of([hb, [np.round(np.asarray(c["pop_x"]), 10).tolist() for c in calls[:2]], [v["oracle"] for v in V]]),
        "sample": jsonable({"blackjax": True, "preconditioning": scn["_precond"], "betas": hb, "points_judged": judged, "hits": hits}),
    }


def _in_hole(t, x):
    if t.prior_hole is None:
        return np.zeros(len(x), bool)
    j, a, b = t.prior_hole
    return (x[:, j] > a) & (x[:, j] < b)


def _near_region_edge(t, x, rel=1e-9):
    """Points within rounding of a discontinuity (box edge, hole edge, slab edge) are not decidable: the simulator's
    pre-image and the repo's may fall on different sides."""
    lo, hi = np.asarray(t.lower), np.asarray(t.upper)
    w = hi - lo
    near = np.any((np.abs(x - lo) < rel * w) | (np.abs(x - hi) < rel * w), axis=1)
    for reg in (t.prior_hole, t.nan_region):
        if reg is not None:
            j, a, b = reg
            near |= (np.abs(x[:, j] - a) < rel * w[j]) | (np.abs(x[:, j] - b) < rel * w[j])
    return near


# ----------------------------------------------------------------------------------------------------------------------
# the same BlackJAXSMC runs, judged by the other properties' oracles (C08 / C10 / C18 / C20 add cases of kind "blackjax")
# ----------------------------------------------------------------------------------------------------------------------
def cases(prop, seed, tier, n_quick=6, n_thorough=80, base=60000):
    from ..core import stream_seeds

    out = []
    for j in range(n_quick if tier == "quick" else n_thorough):
        ss = stream_seeds(seed, prop, base + j)
        out.append({"run_index": base + j, "kind": "blackjax", "scenario_seed": ss["scenario"], "fault_seed": ss["faults"], "tier": tier})
    return out


def as_result(r, scn):
    from types import SimpleNamespace

    t = Target.from_dict(scn["target"])
    return SimpleNamespace(status=r["status"], samples=r.get("samples"), history=r.get("history"), payloads=[],
                           model=SimpleNamespace(target=t), aspire=SimpleNamespace(flow=r.get("flow")), trace=Trace(), error=r.get("error"))


def _digest_run(r):
    s, h = r["samples"], r["history"]
    return digest_of([np.asarray(to_np(s.x)).tobytes().hex(), np.asarray(to_np(s.log_likelihood)).tobytes().hex(),
                      [float(to_np(b)) for b in h.beta], [float(to_np(v)) for v in h.log_norm_ratio],
                      None if getattr(s, "log_evidence", None) is None else float(to_np(s.log_evidence))])


def judge(case, workdir, scn, want):
    """want: subset of {"c08", "c10", "c17", "c18", "c20"}."""
    import copy

    r = run(case, scn, workdir)
    where = r["where"]
    if r["status"] != "ok":
        benign = "contains NaN" in (r["error"] or "")
        V = []
        if "c17" in want:
            # what the model seam saw before the run stopped is still a verdict (a likelihood call without its prior may well be
            # what made the run raise)
            for f in r["model"].c17_failures[:3]:
                V.append(O.violation("c17.prior_attached", f"BlackJAXSMC likelihood call ({'inside the compiled kernel' if f.get('traced') else 'eager'}): {f['why']}"
                                     + f" (the run then stopped: {r['error']})", {**where, "sampler": "blackjax_smc", "traced": bool(f.get("traced"))}))
        return {"violations": V, "aborted": {"why": "run did not finish", "error": r["error"], "benign_initial_nan": benign},
                "evaluations": 1, "events": 0, "nontrivial_keys": [], "digest": digest_of([r["status"], [v["message"] for v in V]]), "probes": {}}
    res = as_result(r, scn)
    V, probes, evaluations = [], {"blackjax_runs": 1}, 1
    # a population collapsed onto one point makes the whitening 0/0 (DESIGN 7.3): nothing downstream is defined
    pops = list(res.history.sample_history)
    if any(not np.all(np.isfinite(np.asarray(to_np(p.x), dtype=np.float64))) for p in pops + [res.samples]):
        return {"violations": [], "aborted": {"why": "population collapsed onto one point (whitening undefined)"}, "evaluations": 1,
                "events": 0, "nontrivial_keys": [], "digest": digest_of("collapsed"), "probes": {"collapsed_population": 1}}
    if "c18" in want or "c08" in want:
        V += O.check_history(res, scn, props=tuple(p for p in ("c18", "c08") if p in want))
    if "c10" in want:
        V += O.check_coherence(res, scn, include_payloads=False)[0]
        probes["populations_checked"] = len(pops) + 1
    if "c17" in want:
        m = r["model"]
        for f in m.c17_failures[:3]:
            V.append(O.violation("c17.prior_attached", f"BlackJAXSMC likelihood call ({'inside the compiled kernel' if f.get('traced') else 'eager'}): {f['why']}"
                                 + (f" (x={f.get('x')}, attached={f.get('attached')}, prior={f.get('prior')})" if "x" in f else ""),
                                 {**where, "sampler": "blackjax_smc", "traced": bool(f.get("traced"))}))
        # the eager call sites evaluate whole populations: the initial one and one per kernel (incl. the final enlargement)
        probes["c17.eager_likelihood_calls"] = m.c17_checked["concrete_calls"]
        probes["c17.traced_likelihood_calls"] = m.c17_checked["traced_calls"]
        probes["c17.traced_points_checked"] = m.c17_checked["traced_points"]
    if "c20" in want:
        d1 = _digest_run(r)
        r2 = run(case, scn, workdir)
        evaluations += 1
        if r2["status"] != "ok" or _digest_run(r2) != d1:
            V.append(O.violation("c20.twin_differs", "two BlackJAXSMC runs with the same key, generator seed and inputs did not return "
                                 "bit-identical samples, evidence and history", {**where, "twin": "in_process"}))
        s3 = copy.deepcopy(scn)
        s3["seeds"]["key"] = int(scn["seeds"]["key"]) + 1
        r3 = run(case, s3, workdir)
        evaluations += 1
        if r3["status"] == "ok" and len(r["history"].beta) and np.array_equal(np.asarray(to_np(r3["samples"].x)), np.asarray(to_np(r["samples"].x))):
            V.append(O.violation("c20.key_unused", "a different rng_key gave bit-identical BlackJAXSMC samples: the key supplied by the user is "
                                 "not the one used by the kernel", {**where, "twin": "other_key"}))
        probes["twin_runs"] = 2
    V = [v for v in V if v["oracle"].split(".")[0] in want]
    return {"violations": V, "aborted": None, "evaluations": evaluations, "events": sum(len(k["evals"]) for k in r["seam"].kernels),
            "iterations": len(res.history.beta), "probes": probes, "faults_fired": {},
            "nontrivial_keys": [["blackjax_smc", scn["_precond"], scn["_schedule_mode"], scn["sample_kwargs"].get("n_final_samples") is not None]],
            "digest": _digest_run(r), "sample": jsonable({"blackjax": True, "betas": [float(to_np(b)) for b in res.history.beta]})}


def judge_schedule(case, workdir, scn, want):
    """C06 / C07 for BlackJAXSMC: the schedule and bisection oracles on a whole run of the jax-driven variant."""
    scn = {**scn, "target": {**scn["target"], "nan_region": None, "prior_hole": None}}
    r = run(case, scn, workdir, probes=False)
    where = r["where"]
    sk = scn["sample_kwargs"]
    if r["status"] != "ok":
        V = []
        if "c06" in want and r["status"] == "error":
            V.append(O.violation("c06.raises", f"valid schedule options {{{', '.join(f'{k}={v}' for k, v in sk.items() if k != 'sampler_kwargs')}}} "
                                 f"made the BlackJAXSMC run raise {r['error']}", {**where, "sampler": "blackjax_smc"}))
        return {"violations": V, "aborted": None if V else {"why": "run did not finish", "error": r["error"]}, "evaluations": 1, "events": 0,
                "nontrivial_keys": [], "digest": digest_of([r["status"], r["error"]]), "probes": {}}
    res = as_result(r, scn)
    pops = list(res.history.sample_history)
    if any(not np.all(np.isfinite(np.asarray(to_np(p.x), dtype=np.float64))) for p in pops + [res.samples]):
        return {"violations": [], "aborted": {"why": "population collapsed onto one point (whitening undefined)"}, "evaluations": 1,
                "events": 0, "nontrivial_keys": [], "digest": digest_of("collapsed"), "probes": {"collapsed_population": 1}}
    V, probes = [], {"blackjax_runs": 1}
    if "c06" in want:
        V += O.check_schedule(res, scn)
    if "c07" in want:
        vs, st = O.check_bisection(res, scn)
        V += vs
        for k, v in st.items():
            if v:
                probes["c07." + k] = v
    mode = "ramp" if isinstance(sk.get("target_efficiency"), list) else scn["_schedule_mode"]
    return {"violations": V, "aborted": None, "evaluations": 1, "events": 0, "iterations": len(res.history.beta), "probes": probes,
            "faults_fired": {}, "nontrivial_keys": [["blackjax_smc", mode, scn["_precond"], min(len(res.history.beta), 12)]],
            "digest": _digest_run(r), "sample": jsonable({"blackjax": True, "schedule_options": {k: v for k, v in sk.items() if k != "sampler_kwargs"},
                                                         "betas": [float(to_np(b)) for b in res.history.beta]})}


def judge_resume(case, workdir, scn):
    """C11 for BlackJAXSMC: crash at eager likelihood calls (the evaluation of the initial population and the one after every
    kernel), restart from the last payload the checkpoint callback received (bytes), same arguments, same key, same
    generator seed: the resumed run must finish exactly like the uninterrupted one."""
    scn = {**scn, "target": {**scn["target"], "nan_region": None}}
    ref = run(case, scn, workdir, collect=True, probes=False)
    where = {**ref["where"], "route": "bytes"}
    if ref["status"] != "ok":
        return {"violations": [], "aborted": {"why": "reference run did not finish", "error": ref["error"]}, "evaluations": 1, "events": 0,
                "nontrivial_keys": [], "digest": digest_of(ref["status"]), "probes": {}}
    if any(not np.all(np.isfinite(np.asarray(to_np(p.x), dtype=np.float64))) for p in list(ref["history"].sample_history) + [ref["samples"]]):
        return {"violations": [], "aborted": {"why": "population collapsed onto one point (whitening undefined)"}, "evaluations": 1,
                "events": 0, "nontrivial_keys": [], "digest": digest_of("collapsed"), "probes": {"collapsed_population": 1}}
    d_ref = _digest_run(ref)
    n_calls = ref["model"].n_concrete_like_calls
    hb_ref = [float(to_np(b)) for b in ref["history"].beta]
    V, evaluations, resumes, states, crashes = [], 1, 0, set(), 0
    quick = case.get("tier") == "quick"
    ks = list(range(1, n_calls))
    if quick and len(ks) > 1:
        # every run re-traces and compiles the kernel (seconds each): the quick tier crashes ONE run for real, at a drawn call
        # after the first checkpoint, and takes one more durable state straight from the reference's payloads (the crashed
        # run's payloads are a prefix of them: same seeds, same key)
        ks = [int(rng_from(case["fault_seed"] + 3).integers(2, n_calls))] if n_calls > 2 else ks

    def judge_resumed(it, blob, how):
        nonlocal evaluations, resumes
        r = run(case, scn, workdir, resume=blob, probes=False)
        evaluations += 1
        resumes += 1
        wr = {**where, "resumed_iteration": it}
        if r["status"] != "ok":
            V.append(O.violation("c11.resume_failed", f"BlackJAXSMC resumed from the iteration-{it} checkpoint raised {r['error']}", wr))
            return
        hb = [float(to_np(b)) for b in r["history"].beta]
        if hb != hb_ref:
            V.append(O.violation("c11.schedule", f"BlackJAXSMC resumed via bytes from iteration {it} ({how}): "
                                 f"temperatures {hb} differ from the uninterrupted run's {hb_ref}", wr))
        elif _digest_run(r) != d_ref:
            dx = float(np.max(np.abs(np.asarray(to_np(r["samples"].x), dtype=np.float64) - np.asarray(to_np(ref["samples"].x), dtype=np.float64)))) \
                if np.shape(to_np(r["samples"].x)) == np.shape(to_np(ref["samples"].x)) else None
            V.append(O.violation("c11.populations", f"BlackJAXSMC resumed via bytes from iteration {it} ({how}): the final "
                                 f"population / evidence differ from the uninterrupted run (max |dx| = {dx})", wr))
        elif len(r["history"].sample_history) != len(ref["history"].sample_history):
            V.append(O.violation("c11.history_populations", f"BlackJAXSMC resumed via bytes from iteration {it} ({how}): the history holds "
                                 f"{len(r['history'].sample_history)} populations, the uninterrupted run's {len(ref['history'].sample_history)}", wr))

    for k in ks:
        c = run(case, scn, workdir, crash_at=k, collect=True, probes=False)
        evaluations += 1
        if c["status"] != "crashed":
            continue
        crashes += 1
        if not c["payloads"]:
            continue
        it, blob = c["payloads"][-1]
        if it in states:
            continue
        states.add(it)
        judge_resumed(it, blob, f"crash at eager likelihood call {k}")
    if quick:
        rest = [(it, blob) for it, blob in ref["payloads"] if it not in states]
        if rest:
            it, blob = rest[int(rng_from(case["fault_seed"] + 4).integers(len(rest)))]
            states.add(it)
            judge_resumed(it, blob, "the payload the uninterrupted run's callback received")
    return {"violations": V, "aborted": None, "evaluations": evaluations, "events": n_calls, "iterations": len(ref["history"].beta),
            "probes": {"blackjax_resumed_runs": resumes, "blackjax_crash_points": crashes}, "faults_fired": {"crash_like": crashes, "restart:bytes": resumes},
            "nontrivial_keys": [["blackjax_smc", scn["_precond"], scn["_schedule_mode"], "resumed"]] if resumes else [],
            "digest": d_ref, "sample": jsonable({"blackjax": True, "resumed_from": sorted(x for x in states if x is not None)})}
