"""C18 -- the diagnostic history is a faithful record of the run (also after resume)."""

from __future__ import annotations

from ..core import rng_from
from ..crashloop import ROUTES, explore
from ..swarm import PRECONDS_WITH_FLOW, draw_smc_scenario
from . import c11 as _c11
from .common import COMPONENTS, crash_case, shrink_scenario_candidates

ID = "C18"
LEVEL = "fault_enumeration"
RULE = (
    "case = one swarm-drawn SMC scenario; the history of the fault-free run and of every run resumed after a crash "
    "(crash enumerated at every likelihood/prior call, one resume per distinct durable state and route) is judged: "
    "every series has one entry per iteration, sample_history has iterations+1 entries with the right temperatures, "
    "no entry repeated, and each recorded ESS / target ESS / incremental ratio equals the simulator's own "
    "recomputation from the neighbouring stored populations. evaluations = processes simulated; non-trivial = a "
    "judged history with >= 2 iterations; distinct_nontrivial counts distinct (schedule mode, n_final, checkpoint "
    "mode, cadence, route, crash phase, namespace, preconditioning, resumed-at-final) tuples. "
    "A few cases run BlackJAXSMC (stand-in random-walk blackjax, jax-traceable model) and apply the same history oracle."
)
ASSUMPTIONS = _c11.ASSUMPTIONS
BUDGET_S = {"quick": 70, "thorough": 1500}
WANT = ("c18",)


def gen_cases(seed, tier):
    n = 96 if tier == "quick" else 2000
    from . import c05_blackjax

    return c05_blackjax.cases(ID, seed, tier) + [crash_case(ID, seed, i, tier=tier) for i in range(n)]


def scenario_of(case):
    if "scenario" in case:
        return case["scenario"]
    if case.get("kind") == "blackjax":
        from . import c05_blackjax

        return c05_blackjax.scenario(case)
    scn = _draw(case)
    if case["run_index"] % 5 == 4:
        # the emcee-driven SMC variant shares the loop and the history (its own randomness is not restorable, which
        # matters for C11, not for the internal consistency of a history)
        scn["sampler"] = "emcee_smc"
        sk = scn["sample_kwargs"]
        for k in ("min_step", "max_n_steps"):
            sk.pop(k, None)
        sk["sampler_kwargs"] = {"nsteps": 2, "progress": False}
        scn["rng_route"] = "none"
        if scn["xp"] == "jax" and scn["preconditioning"] == "none":
            scn["preconditioning"] = "default"
    return scn


def _draw(case):
    quick = case.get("tier") == "quick"
    return draw_smc_scenario(
        case["scenario_seed"],
        xps=("numpy", "numpy", "torch", "jax"),
        dtypes=(None, None, "float64", "float32"),
        particles=(12, 32) if quick else (12, 64),
        kernel_steps=(1, 2),
        checkpoint_modes=("path", "auto", "callback", "none"),
        hard=bool(case["run_index"] % 2), offset_prob=0.15, reuse_prob=0.3, preconds=PRECONDS_WITH_FLOW,
    )


def run_case(case, workdir):
    if case.get("kind") == "blackjax":
        from . import c05_blackjax

        return c05_blackjax.judge(case, workdir, scenario_of(case), want=('c18',))
    scn = scenario_of(case)
    quick = case.get("tier") == "quick"
    rng = rng_from(case["fault_seed"])
    res = explore(
        scn, workdir, want=WANT, rng=rng,
        routes=case.get("routes") or ROUTES,
        max_states=case.get("max_states", 2 if quick else 6),
        max_crash_points=case.get("max_crash_points", 40 if quick else 200),
        double_crash=0 if quick else 1,
    )
    out = _c11.finish(case, scn, res)
    out["violations"] = [v for v in res["violations"] if v["oracle"].split(".")[0] in WANT]
    if res["ref"] and res["ref"]["n_iter"] >= 2:
        out["nontrivial_keys"] = out["nontrivial_keys"] + [
            [scn.get("_schedule_mode"), scn["sample_kwargs"].get("n_final_samples") is not None,
             scn["checkpoint"]["mode"], "reference", scn["xp"], scn["dtype"], scn["preconditioning"]]
        ]
    return out


aggregate = _c11.aggregate


def shrink_candidates(case):
    if case.get("kind") == "blackjax":
        return []  # the scenario is already small; the generic shrinkers assume the numpy model
    scn = scenario_of(case)
    base = {k: v for k, v in case.items() if k not in ("scenario",)}
    out = [{**base, "scenario": scn, "max_states": 1, "routes": [r]} for r in ROUTES if case.get("routes") != [r]]
    for s in shrink_scenario_candidates(scn):
        out.append({**base, "scenario": s, "routes": case.get("routes"), "max_states": case.get("max_states", 1)})
    return out
