"""C15 (in-run part) -- namespace / dtype conversions preserve values and precision."""

from __future__ import annotations

import copy
import pickle

import numpy as np

from .. import oracles as O
from ..core import digest_of, jsonable, rng_from, stream_seeds, to_np
from ..crashloop import explore
from ..runner import dtype_bits, run_process, xp_name
from ..swarm import pick
from . import runs
from .c20 import FLOWS, build_scenario

ID = "C15"
LEVEL = "exploration"
RULE = (
    "four case kinds. (convert) operation sequences from a seeded stateful machine over a pool of sample sets (BaseSamples / "
    "Samples / SMCSamples x numpy / torch / jax x float32 / float64 x every optional-field subset x attached evidence), each shadowed "
    "by a plain-array model: to_namespace(T) for every ordered pair and to_numpy() compose with select / concatenate / pickle / "
    "dict round trips and with each other (A -> B -> C); after every conversion the set must equal the model -- same class, values, "
    "optional fields, parameters, temperature, attached evidence, the target namespace and the SAME float width. (precision) a run under namespace x requested dtype "
    "(None / 'float32' / 'float64' as string or native object) x sampler: every array seen at the model seam, every "
    "population recorded in the history, stored in a checkpoint payload, restored after a crash/resume and returned must "
    "have the requested float width (namespace default when none was requested) and live in the sample namespace; "
    "(xp_out) sample_posterior(xp=T) for every ordered pair (sample namespace, T): the result lives in T, keeps every value "
    "and optional field of the same-seed run without xp= and keeps the float width; (consume) real zuko / flowjax proposal "
    "outputs fed to importance and SMC sampling in every sample namespace: the run must not raise. evaluations = processes; "
    "distinct_nontrivial counts distinct (kind, sampler, flow back-end, namespace, dtype spelling, target namespace) tuples."
)
ASSUMPTIONS = ["the table of dtype SPELLINGS accepted by the dtype helpers is exercised only through the spellings runs are configured with (None, 'float32', 'float64', native objects)", "stub kernels; CPU only"]
COMPONENTS = {
    "real": runs.COMPONENTS["real"] + ["Samples.to_namespace / from_samples / to_standard_samples", "ZukoFlow", "FlowJax", "aspire.utils.asarray / resolve_dtype / convert_dtype"],
    "stub": runs.COMPONENTS["stub"],
    "not_run": ["blackjax", "cupy/dask namespaces", "GPU devices"],
}
BUDGET_S = {"quick": 85, "thorough": 1500}
XPS = ("numpy", "torch", "jax")
DTYPES = (None, "float32", "float64", "native:float32", "native:float64")


def gen_cases(seed, tier):
    cases = []
    i = 0
    quick = tier == "quick"

    def add(kind, **kw):
        nonlocal i
        ss = stream_seeds(seed, ID, i)
        cases.append({"run_index": i, "kind": kind, "scenario_seed": ss["scenario"], "fault_seed": ss["faults"], "tier": tier, **kw})
        i += 1

    for rep in range(1 if quick else 8):
        for xp in XPS:
            for dt in DTYPES:
                for sampler in ("smc", "importance", "minipcn"):
                    if xp == "torch" and dt is not None and dt.startswith("native:"):
                        # a torch dtype object cannot configure the numpy-namespace stub proposal's data
                        # transform; native torch spellings are exercised with the real zuko flow below
                        continue
                    add("precision", sampler=sampler, flow="simflow", xp=xp, dtype=dt, crash=(sampler == "smc"))
                    if sampler in ("smc", "minipcn"):
                        add("precision", sampler=sampler, flow="simflow", xp=xp, dtype=dt, crash=False, leaky=True)
        for src in XPS:
            for dst in XPS:
                for sampler in ("importance", "smc"):
                    add("xp_out", sampler=sampler, flow="simflow", xp=src, xp_out=dst, dtype=pick(rng_from(i), [None, "float32", "float64"]))
    for rep in range(1 if quick else 4):
        for flow in ("zuko", "flowjax"):
            for xp in XPS:
                for sampler in ("importance", "smc"):
                    add("consume", sampler=sampler, flow=flow, xp=xp, dtype=None if rep == 0 else pick(rng_from(i), [None, "float32", "float64"]))
        for sampler in ("importance", "smc"):
            for dt in ("native:float32", "native:float64"):
                add("consume", sampler=sampler, flow="zuko", xp="torch", dtype=dt)
                add("consume", sampler=sampler, flow="flowjax", xp="jax", dtype=dt)
    # (convert) direct conversions: operation sequences over a pool of sample sets (every class x namespace x width x
    # optional-field subset) in which to_namespace / to_numpy compose with select / concatenate / pickle / dict round trips;
    # a seeded Hypothesis search per case, interleaved with the run cases
    from . import machine_common as mc

    conv = mc.gen_cases(ID, seed, tier, n_quick=16, n_thorough=200, ex_quick=60, ex_thorough=200, steps=10)
    for c in conv:
        c["run_index"] = 500000 + c["run_index"]
        c["kind"] = "convert"
    step = max(1, len(cases) // (len(conv) + 1))
    for k, c in enumerate(conv):
        cases.insert(min(len(cases), (k + 1) * step + k), c)
    return cases


def scenario_of(case):
    if "scenario" in case:
        return case["scenario"]
    scn = build_scenario(case["scenario_seed"], case["sampler"], case["flow"], case["xp"])
    scn["xp"] = case["xp"]
    scn["dtype"] = case.get("dtype")
    scn["xp_out"] = case.get("xp_out")
    if case["kind"] == "precision" and case["sampler"] == "smc":
        scn["checkpoint"] = {"mode": "path", "every": 1}
    if case["kind"] == "precision" and case.get("leaky"):
        # a proposal far wider than the prior support: the initial population is assembled from several proposal
        # batches (reject - concatenate - trim), which is one more place where a requested precision can get lost
        scn["flow"].update({"kind": "native", "alpha": 0.0, "inflate": 8.0})
        scn["bounded_to_unbounded"] = False
    if case["flow"] != "simflow" and case.get("dtype") is not None:
        # the flow gets the same dtype request as the samples (Aspire passes it on)
        pass
    return scn


def _width(a):
    return 32 if "32" in str(a.dtype) else 64


def _ns(a):
    m = type(a).__module__
    return "torch" if m.startswith("torch") else ("jax" if m.startswith("jax") else "numpy")


def _judge_arrays(V, tag, arrays, want_bits, want_ns, where, seen):
    for name, a in arrays:
        if a is None:
            continue
        if not hasattr(a, "dtype"):
            continue
        w, ns = _width(a), _ns(a)
        key = (tag.split("[")[0], name, w, ns)
        if key in seen:
            continue
        if w != want_bits:
            seen.add(key)
            V.append(O.violation(
                "c15.precision",
                f"{tag}.{name} is float{w} but the run was asked for float{want_bits} "
                f"(namespace {want_ns}, dtype request {where.get('dtype')!r})",
                {**where, "population": tag.split("[")[0].split("(")[0], "field": name, "got_bits": w, "want_bits": want_bits}))
        if ns != want_ns:
            seen.add(key)
            V.append(O.violation(
                "c15.namespace",
                f"{tag}.{name} lives in {ns}, expected the sample namespace {want_ns}",
                {**where, "population": tag.split("[")[0].split("(")[0], "field": name, "got_ns": ns}))


def _fields(p):
    return [(k, getattr(p, k, None)) for k in ("x", "log_likelihood", "log_prior", "log_q")]


def judge_precision(r, scn, V, where, tag_prefix=""):
    want_bits = dtype_bits(scn["xp"], scn["dtype"])
    want_ns = scn["xp"]
    seen = set()
    # arrays handed to the user's callables
    for (ns, w) in sorted(r.model_seen):
        if w != want_bits:
            V.append(O.violation("c15.precision", f"{tag_prefix}the user's likelihood/prior was handed float{w} coordinates, float{want_bits} requested",
                                 {**where, "population": "model_seam", "field": "x", "got_bits": w, "want_bits": want_bits}))
        if ns != want_ns:
            V.append(O.violation("c15.namespace", f"{tag_prefix}the user's likelihood/prior was handed {ns} arrays, sample namespace is {want_ns}",
                                 {**where, "population": "model_seam", "field": "x", "got_ns": ns}))
    if r.samples is not None and not scn.get("xp_out"):
        _judge_arrays(V, tag_prefix + "returned", _fields(r.samples), want_bits, want_ns, where, seen)
    h = r.history
    if h is not None and hasattr(h, "sample_history"):
        for i, p in enumerate(h.sample_history):
            _judge_arrays(V, f"{tag_prefix}sample_history[{i}]", _fields(p), want_bits, want_ns, where, seen)
    for it, b, blob in r.payloads:
        st = pickle.loads(blob)
        _judge_arrays(V, f"{tag_prefix}checkpoint(iteration={it})", _fields(st["samples"]), want_bits, want_ns, where, seen)
    # the per-iteration diagnostics are computed from the populations: their width betrays a population that was built
    # or restored in another precision even when it is never recorded itself
    if h is not None and hasattr(h, "log_norm_ratio"):
        for name in ("log_norm_ratio", "ess"):
            for i, v in enumerate(getattr(h, name)):
                if hasattr(v, "dtype") and "float" in str(v.dtype) and _width(v) != want_bits:
                    V.append(O.violation("c15.precision", f"{tag_prefix}history.{name}[{i}] was computed in float{_width(v)}; the run was asked for float{want_bits}",
                                         {**where, "population": "history_series", "field": name, "got_bits": _width(v), "want_bits": want_bits}))
                    return


def run_case(case, workdir):
    if case.get("kind") == "convert" or "ops" in case:
        from ..machines import c15conv
        from . import machine_common as mc

        return mc.run_case(c15conv, case, workdir)
    scn = scenario_of(case)
    kind = case["kind"]
    where = {**O.scn_where(scn), "kind": kind, "xp_out": scn.get("xp_out")}
    V, probes, keys = [], {}, []
    evaluations = 0

    def with_model_probe(s, **kw):
        seen = set()

        def before(A, res):
            res.model.listeners.append(lambda k, samples, val: seen.add((_ns(samples.x), _width(samples.x))))

        r = run_process(s, workdir, fresh_file=True, before_sample=before, **kw)
        r.model_seen = seen
        return r

    r = with_model_probe(scn)
    evaluations += 1
    events = len(r.trace.events)
    key = [kind, scn["sampler"], scn["flow"]["backend"], scn["xp"], scn["dtype"], scn.get("xp_out"), bool(case.get("leaky"))]
    if r.status != "ok":
        if kind == "consume" or kind == "xp_out":
            V.append(O.violation(
                "c15.proposal_not_consumable" if kind == "consume" else "c15.xp_out_failed",
                (f"{scn['flow']['backend']} proposal outputs could not be consumed by sampler '{scn['sampler']}' in the {scn['xp']} sample namespace"
                 if kind == "consume" else
                 f"sample_posterior(xp={scn.get('xp_out')}) from sample namespace {scn['xp']} (dtype {scn['dtype']!r}, sampler '{scn['sampler']}') failed")
                + f": {r.error}", where, tb=(r.tb or "")[-1500:]))
            keys.append(key)
        else:
            return {"violations": [], "aborted": {"why": "run did not finish", "error": r.error, "tb": (r.tb or "")[-1200:], "key": key},
                    "evaluations": 1, "events": events, "nontrivial_keys": [], "digest": digest_of(r.status)}
    else:
        keys.append(key)
        if kind in ("precision", "consume"):
            judge_precision(r, scn, V, where)
        if kind == "precision" and case.get("crash") and scn["checkpoint"]["mode"] != "none":
            # a crash at a sampled likelihood call, then restore through two routes
            rng = rng_from(case["fault_seed"])
            nl = r.model.n_like_calls
            if nl > 3 and r.payloads:
                from ..runner import read_file_checkpoint

                k = int(rng.integers(nl // 2, nl))
                c = run_process(scn, workdir, fresh_file=True, crash=("like", k, "interrupt"))
                evaluations += 1
                fb = read_file_checkpoint(c.file)
                if fb is not None:
                    probes["crash_then_restore"] = 1
                    for route in ("bytes", "resume_from_file"):
                        rr = with_model_probe(scn, resume=(route, fb), proc_no=1) if False else None
                        seen = set()

                        def before(A, res):
                            res.model.listeners.append(lambda kk, samples, val: seen.add((_ns(samples.x), _width(samples.x))))

                        import shutil

                        shutil.copy(c.file, c.file + ".keep")
                        rr = run_process(scn, workdir, resume=(route, fb), proc_no=1, before_sample=before)
                        shutil.copy(c.file + ".keep", c.file)
                        rr.model_seen = seen
                        evaluations += 1
                        if rr.status == "ok":
                            judge_precision(rr, scn, V, {**where, "resumed": True, "route": route}, tag_prefix="after resume: ")
                            keys.append(key + ["resumed", route])
                # ... and a resume of the FINISHED run: what comes back is the restored population itself
                fin = r.payloads[-1][2]
                rf = run_process(scn, workdir, resume=("bytes", fin), proc_no=2)
                evaluations += 1
                if rf.status == "ok":
                    rf.model_seen = set()
                    judge_precision(rf, scn, V, {**where, "resumed": True, "route": "bytes", "resumed_finished_run": True}, tag_prefix="after resuming the finished run: ")
        if kind == "xp_out":
            s0 = copy.deepcopy(scn)
            s0["xp_out"] = None
            r0 = run_process(s0, workdir, fresh_file=True)
            evaluations += 1
            want_ns = scn["xp_out"]
            want_bits = dtype_bits(scn["xp"], scn["dtype"])
            a, b = r0.samples, r.samples
            for name in ("x", "log_likelihood", "log_prior", "log_q", "log_w", "weights", "log_evidence", "log_evidence_error"):
                va, vb = getattr(a, name, None), getattr(b, name, None)
                if va is None and vb is None:
                    continue
                if (va is None) != (vb is None):
                    V.append(O.violation("c15.xp_out_field", f"optional field {name} {'lost' if vb is None else 'appeared'} in sample_posterior(xp={want_ns})", {**where, "field": name}))
                    continue
                na, nb = np.asarray(to_np(va), dtype=np.float64), np.asarray(to_np(vb), dtype=np.float64)
                tol = dict(rtol=1e-6, atol=1e-6) if want_bits == 32 else dict(rtol=1e-12, atol=1e-12)
                if na.shape != nb.shape or not O.close(na, nb, **tol):
                    V.append(O.violation("c15.xp_out_value", f"{name} changed value in sample_posterior(xp={want_ns})", {**where, "field": name}))
                if hasattr(vb, "dtype") and hasattr(vb, "shape"):
                    if _ns(vb) != want_ns and not np.isscalar(vb):
                        V.append(O.violation("c15.xp_out_namespace", f"{name} of the result lives in {_ns(vb)}, xp={want_ns} was requested", {**where, "field": name, "got_ns": _ns(vb)}))
                    if name in ("x", "log_likelihood", "log_prior", "log_q") and _width(vb) != _width(va):
                        V.append(O.violation("c15.xp_out_width", f"{name} went from float{_width(va)} to float{_width(vb)} in sample_posterior(xp={want_ns})",
                                             {**where, "field": name, "from_bits": _width(va), "to_bits": _width(vb)}))
    return {
        "violations": V, "aborted": None, "evaluations": evaluations, "events": events,
        "iterations": len(r.history.beta) if r.history is not None and hasattr(r.history, "beta") else 0,
        "probes": probes, "faults_fired": {}, "nontrivial_keys": keys,
        "digest": digest_of([r.summary() if r.status == "ok" else r.error, [(v["oracle"], v["message"]) for v in V]]),
        "sample": jsonable({"kind": kind, "sampler": scn["sampler"], "flow": scn["flow"]["backend"], "xp": scn["xp"],
                            "dtype": scn["dtype"], "xp_out": scn.get("xp_out"), "status": r.status}),
    }
