"""C06 -- the SMC temperature schedule strictly increases, ends exactly at 1, terminates."""

from . import sched

ID = "C06"
LEVEL = "exploration"
RULE = (
    "case = one whole SMC run under a swarm-drawn schedule configuration (adaptive / ramped target / fixed n_steps / "
    "min_step / max_n_steps and their combinations, n_final_samples) x target (gaussian box, bound-hugging, periodic, "
    "bimodal, extremely peaked with a broad proposal) x particles x namespace/dtype; fixed schedules with n_steps = "
    "1..100 are enumerated completely in the thorough tier (1..24 in quick). Liveness is bounded through the model "
    "seam: the harness stops a run after a fixed number of iterations (deterministic, not a wall-clock kill) and judges "
    "progress. History oracle: 0 < b1 < b2 < ... <= 1, last == 1.0 exactly or len == max_n_steps, exactly n iterations for "
    "a fixed schedule, explicit min_step honoured, no exception, no iteration without progress. Non-trivial = run with "
    ">= 1 iteration; distinct_nontrivial counts distinct (schedule mode, target kind, namespace, dtype, min(iterations,12), status)."
)
ASSUMPTIONS = ["stub kernel/proposal/model; populations are those whole runs reach through the model seam"]
COMPONENTS = sched.COMPONENTS
BUDGET_S = {"quick": 80, "thorough": 1500}


def gen_cases(seed, tier):
    return sched.gen_cases(ID, seed, tier)


def run_case(case, workdir):
    return sched.run_schedule_case(case, workdir, want=("c06",))


def aggregate(outcomes):
    fixed = sorted({o["case"]["force"]["n_steps"] for o in outcomes if (o.get("case") or {}).get("force")})
    return {"fixed_n_steps_enumerated": [fixed[0], fixed[-1]] if fixed else None}


shrink_candidates = sched.shrink_candidates
