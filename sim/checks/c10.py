"""C10 -- cached per-particle log-densities always belong to the particle's coordinates."""

from __future__ import annotations

import numpy as np

from .. import oracles as O
from ..core import digest_of, jsonable, rng_from, stream_seeds, to_np
from ..crashloop import explore
from ..runner import run_process
from . import runs
from ..swarm import PRECONDS_WITH_FLOW
from .common import shrink_scenario_candidates

ID = "C10"
LEVEL = "exploration"
RULE = (
    "case = one swarm-drawn scenario over every sampler (importance, minipcn MCMC, emcee MCMC, minipcn SMC, emcee SMC) x "
    "preconditioning x namespace x dtype x proposal wider/narrower than the prior support (so the draw-reject-concatenate-"
    "trim loop of the initial population runs). Because the model and the stub proposal are deterministic functions owned "
    "by the simulator, coherence is decided by recomputation: for the returned samples, every sample_history entry and the "
    "samples (and history) inside every checkpoint payload, before and after a crash/resume (sampled crash points, SMC "
    "only), stored log_likelihood/log_prior/log_q of row i must equal L, pi, q at x[i]. Proposal seam: every row of the "
    "initial population must be a row the proposal drew, paired with the log_q drawn with it; size == request; all priors "
    "finite. evaluations = processes; non-trivial = populations were judged; distinct_nontrivial counts distinct (sampler, "
    "namespace, dtype, preconditioning, checkpoint mode, retry-loop-ran, resumed) tuples. "
    "A few cases run BlackJAXSMC (stand-in random-walk blackjax, jax-traceable model): returned samples and every stored population are recomputed."
)
ASSUMPTIONS = ["stub kernels/proposal/model; blackjax sampler not run"]
COMPONENTS = runs.COMPONENTS
BUDGET_S = {"quick": 80, "thorough": 1500}


def gen_cases(seed, tier):
    n = 320 if tier == "quick" else 6000
    out = []
    for i in range(n):
        ss = stream_seeds(seed, ID, i)
        out.append({"run_index": i, "scenario_seed": ss["scenario"], "fault_seed": ss["faults"], "tier": tier})
    from . import c05_blackjax

    return c05_blackjax.cases(ID, seed, tier) + out


def scenario_of(case):
    if "scenario" in case:
        return case["scenario"]
    if case.get("kind") == "blackjax":
        from . import c05_blackjax

        return c05_blackjax.scenario(case)
    scn = runs.draw_any(case["scenario_seed"], case["tier"], preconds=PRECONDS_WITH_FLOW)
    rng = rng_from(case["fault_seed"])
    # half of the cases: a proposal much wider than the prior support -> retry loop
    if rng.integers(2) == 0:
        scn["flow"]["kind"] = "native"
        scn["flow"]["alpha"] = 0.0
        scn["flow"]["inflate"] = float(rng.uniform(4.0, 12.0))
        scn["bounded_to_unbounded"] = False
    if rng_from(case["fault_seed"] + 11).integers(5) == 0:
        # the user's callables are swapped for pool-mapped versions by Aspire.enable_pool (likelihood only, or the prior too)
        scn["_pool"] = "prior_too" if rng_from(case["fault_seed"] + 12).integers(2) else "likelihood"
    if scn["flow"].get("kind") == "native" and scn["flow"].get("inflate", 0) >= 4.0:
        if scn["dtype"] == "float32" and scn["sampler"] == "smc" and rng.integers(4) != 0:
            # a float32 run whose prior hands back float64 numpy values and marks the excluded region with a finite sentinel
            # (-1e300, a common "log of zero" stand-in) instead of -inf: in the run's own precision that IS minus infinity, so
            # such draws have no place in the initial population
            scn["target"]["prior_floor"] = -1e300
            scn["return_numpy"] = True
            scn["_prior_sentinel"] = True
    return scn


def _initial_population_checks(scn, workdir, where):
    """Proposal seam: rows of the initial population vs rows the proposal drew."""
    V, info = [], {}
    drawn = []

    def before(A, res):
        A.flow.listeners.append(lambda kind, x, lq: drawn.append((x.copy(), lq.copy())) if kind == "sample" else None)

    pool = None
    if scn.get("_pool"):
        from ..env import FakePool

        pool = FakePool()
        pool.parallelize_prior = scn["_pool"] == "prior_too"
    r = run_process(scn, workdir, before_sample=before, fresh_file=True, proc_no=0, pool=pool)
    if r.status != "ok":
        return V, info, r
    sampler = scn["sampler"]
    pop0 = None
    if r.history is not None and hasattr(r.history, "sample_history") and r.history.sample_history:
        pop0 = r.history.sample_history[0]
    info["proposal_batches"] = len(drawn)
    if pop0 is not None and drawn:
        X = np.concatenate([d[0] for d in drawn])
        Q = np.concatenate([d[1] for d in drawn])
        x0 = np.asarray(to_np(pop0.x), dtype=np.float64)
        q0 = np.asarray(to_np(pop0.log_q), dtype=np.float64)
        bits = O.run_bits(r, scn)
        xt = dict(rtol=1e-5, atol=1e-5) if bits == 32 else dict(rtol=1e-12, atol=1e-12)
        qt = dict(rtol=1e-5, atol=1e-4) if bits == 32 else dict(rtol=1e-10, atol=1e-10)
        if len(x0) != scn["n_samples"]:
            V.append(O.violation("c10.initial_size", f"initial population has {len(x0)} particles, {scn['n_samples']} requested", where))
        lp0 = np.asarray(to_np(pop0.log_prior), dtype=np.float64)
        if not np.all(np.isfinite(lp0)):
            V.append(O.violation("c10.initial_prior", "initial population contains particles with non-finite log-prior", where))
        bad = 0
        for i in range(len(x0)):
            d = np.max(np.abs(X - x0[i]) / (1e-300 + np.abs(x0[i]) * xt["rtol"] + xt["atol"]), axis=1)
            j = int(np.argmin(d))
            if d[j] > 1.0 or not np.isclose(Q[j], q0[i], **qt):
                bad += 1
        if bad:
            V.append(
                O.violation(
                    "c10.initial_pairing",
                    f"{bad} of {len(x0)} initial particles are not rows the proposal drew paired with the log_q drawn with them",
                    where, n_bad=bad,
                )
            )
        info["retry_loop_ran"] = len(drawn) > 1
    return V, info, r


def run_case(case, workdir):
    if case.get("kind") == "blackjax":
        from . import c05_blackjax

        return c05_blackjax.judge(case, workdir, scenario_of(case), want=('c10',))
    scn = scenario_of(case)
    where = O.scn_where(scn)
    V = []
    probes = {}
    V0, info, r = _initial_population_checks(scn, workdir, where)
    V += V0
    evaluations = 1
    events = len(r.trace.events)
    aborted = None
    n_pops = 0
    keys = []
    if r.status != "ok":
        aborted = {"why": "run did not finish", "status": r.status, "error": r.error, "tb": (r.tb or "")[-1200:],
                   "sampler": scn["sampler"], "xp": scn["xp"], "dtype": scn["dtype"]}
    else:
        vs, n_pops = O.check_coherence(r, scn)
        V += vs
        if scn["sampler"] == "importance" and r.samples is not None and getattr(r.samples, "log_w", None) is not None:
            # the unweighted set handed back by rejection sampling is one more sample set the library hands back: its cached
            # log-densities must still belong to its rows
            from ..rng import make_generator

            rs = r.samples.rejection_sample(rng=make_generator(int(scn["seeds"]["rng"]) + 9, trace=None, name="user", backend=scn["xp"]))
            if len(rs.x):
                V += O._coherence_one("rejection-sampled set", r.model.target, None, rs.x, getattr(rs, "log_likelihood", None),
                                      getattr(rs, "log_prior", None), None, O.run_bits(r, scn), where)
                probes["rejection_sampled_sets_judged"] = 1
        if r.aspire is not None and r.samples is not None and len(r.samples.x) and getattr(r.aspire, "flow", None) is not None:
            # Aspire.convert_to_samples: the instance's own way of turning bare coordinates into an evaluated, weighted set
            try:
                xs = r.samples.x[: min(8, len(r.samples.x))]
                cs = r.aspire.convert_to_samples(xs, log_q=r.aspire.flow.log_prob(xs))
            except Exception as e:  # noqa: BLE001 -- not a matter of C10 (counted, not judged)
                probes["convert_to_samples_raised:" + type(e).__name__] = 1
            else:
                V += O._coherence_one("set built by Aspire.convert_to_samples", r.model.target, r.aspire.flow, cs.x, cs.log_likelihood,
                                      cs.log_prior, cs.log_q, O.run_bits(r, scn), where)
                probes["convert_to_samples_sets_judged"] = 1
        if info.get("retry_loop_ran"):
            probes["initial_draw_retry_loop_ran"] = 1
        keys.append([scn["sampler"], scn["xp"], scn["dtype"], scn["_precond"], scn["checkpoint"]["mode"],
                     bool(info.get("retry_loop_ran")), False])
        # crash / resume coherence (SMC with checkpoints only; sampled crash points)
        if scn["sampler"] in ("smc",) and scn["checkpoint"]["mode"] != "none" and case.get("crash", True):
            res = explore(scn, workdir, want=("c10",), rng=rng_from(case["fault_seed"] + 3),
                          routes=("bytes", "resume_from_file"), max_crash_points=12, max_states=2)
            V += [v for v in res["violations"] if v["oracle"].startswith("c10.")]
            evaluations += res["evaluations"]
            events += res["events"]
            if res["resumes"]:
                probes["resumed_runs_judged"] = res["resumes"]
                keys.append([scn["sampler"], scn["xp"], scn["dtype"], scn["_precond"], scn["checkpoint"]["mode"],
                             bool(info.get("retry_loop_ran")), True])
    return {
        "violations": V, "aborted": aborted, "evaluations": evaluations, "events": events,
        "iterations": len(r.history.beta) if r.history is not None and hasattr(r.history, "beta") else 0,
        "probes": probes, "faults_fired": {}, "nontrivial_keys": keys if n_pops else [],
        "digest": digest_of([r.summary() if r.status == "ok" else r.status, [(v["oracle"], v["message"]) for v in V]]),
        "sample": jsonable({"sampler": scn["sampler"], "xp": scn["xp"], "dtype": scn["dtype"], "n_samples": scn["n_samples"],
                            "preconditioning": scn["_precond"], "flow": scn["flow"], "populations_judged": n_pops,
                            "proposal_batches_for_initial_population": info.get("proposal_batches")}),
    }


def shrink_candidates(case):
    if case.get("kind") == "blackjax":
        return []  # the scenario is already small; the generic shrinkers assume the numpy model
    scn = scenario_of(case)
    base = {k: v for k, v in case.items() if k != "scenario"}
    return [{**base, "scenario": s, "crash": False} for s in shrink_scenario_candidates(scn)] + [{**base, "scenario": scn, "crash": False}]
