"""C20 -- runs are reproducible given the same explicit random sources."""

from __future__ import annotations

import copy

import numpy as np
import json
import os
import subprocess
import sys
import tempfile
import shutil

from .. import ROOT
from .. import oracles as O
from ..core import digest_of, jsonable, rng_from, stream_seeds
from ..env import make_target
from ..runner import default_scenario, run_process
from ..swarm import pick
from . import runs

ID = "C20"
LEVEL = "exploration"
RULE = (
    "case kinds: (twin) one scenario executed twice in one process and once more in a FRESH interpreter under a different "
    "PYTHONHASHSEED with the same seeds/keys/generators: the digest over returned samples, weights, evidence, every history "
    "series and every stored population must be identical -- for flow construction + training with the real zuko and "
    "flowjax wrappers and the stub proposal, importance sampling, minipcn MCMC and SMC; (route) for every way of supplying "
    "the generator (sampler constructor, sampler sample() call, top-level sample_posterior) the supplied SimGenerator must "
    "have been drawn from, every choice/normal/uniform in the trace must come from it, and the entropy seam (unseeded "
    "default_rng()/ArrayRNG()) must record zero requests; (seed) changing only the supplied generator's seed must change the "
    "result. evaluations = processes (incl. fresh interpreters); non-trivial = executed comparison; distinct_nontrivial counts "
    "distinct (kind, sampler, flow back-end, namespace, route) tuples. "
    "A few cases run BlackJAXSMC twice with the same jax key and generator seed (bit-identical) and once with another key (must differ)."
)
ASSUMPTIONS = [
    "single-threaded numerics (OMP/MKL/XLA pinned to one thread), CPU only",
    "emcee_smc has no way to be given a generator and is not judged; real minipcn/orng/emcee/blackjax are not run",
]
COMPONENTS = {
    "real": runs.COMPONENTS["real"] + ["ZukoFlow (construction, fit, sample_and_log_prob)", "FlowJax (construction, fit, sample_and_log_prob)", "torch", "jax/flowjax/equinox"],
    "stub": runs.COMPONENTS["stub"],
    "not_run": ["blackjax", "real minipcn/orng/emcee"],
}
BUDGET_S = {"quick": 85, "thorough": 1500}

FLOWS = {
    "simflow": ({"backend": "simflow", "kind": "latent", "alpha": 0.0, "inflate": 1.5, "seed": 11}, {}),
    "zuko": ({"backend": "zuko", "flow_class": "MAF", "transforms": 2, "hidden_features": [8, 8], "seed": 5},
             {"n_epochs": 2, "batch_size": 100}),
    "flowjax": ({"backend": "flowjax", "key_seed": 5, "flow_layers": 2, "nn_width": 8},
                {"max_epochs": 2, "batch_size": 100, "show_progress": False}),
}
SAMPLER_KW = {
    "importance": {},
    "minipcn": {"n_steps": 3},
    "smc": {"sampler_kwargs": {"n_steps": 1}, "target_efficiency": 0.6},
    "emcee": {"nsteps": 3},
}


def build_scenario(seed, sampler, flow, xp, route="ctor", api="aspire", rng_kind=None):
    rng = rng_from(seed)
    kind, d = pick(rng, ["gauss_box", "hug", "periodic"]), int(pick(rng, [1, 2]))
    if flow != "simflow" and int(seed) % 2:
        d = 3  # real flows also in 3 dimensions (flowjax then carries key-dependent permutation layers)
    t = make_target(kind, d, rng)
    fl, fit = copy.deepcopy(FLOWS[flow])
    if "seed" in fl:
        fl["seed"] = int(rng.integers(1 << 30))
    if "key_seed" in fl:
        fl["key_seed"] = int(rng.integers(1 << 30))
    scn = default_scenario(
        t, sampler=sampler, sample_kwargs=copy.deepcopy(SAMPLER_KW[sampler]), n_samples=int(rng.integers(16, 40)), xp=xp,
        fit_kwargs=fit, rng_route=route, api=api,
        train={"n": 200, "shift": float(rng.uniform(-1.5, 1.5)), "widen": 1.3},
        seeds={"rng": int(rng.integers(1 << 30)), "entropy": int(rng.integers(1 << 30)),
               "train": int(rng.integers(1 << 30)), "torch": int(rng.integers(1 << 30))},
    )
    scn["flow"] = fl
    if flow == "zuko" and sampler == "smc":
        # zuko proposal outputs in a non-torch SMC namespace is C15's matter (F6); keep C20 on the cells that run
        scn["xp"] = "torch"
    if sampler == "smc" and rng.integers(2) == 0:
        scn["sample_kwargs"]["n_final_samples"] = scn["n_samples"] + 5
    if rng_kind:
        scn["rng_kind"] = rng_kind
    return scn


def gen_cases(seed, tier):
    cases = []
    i = 0
    quick = tier == "quick"

    def add(kind, **kw):
        nonlocal i
        ss = stream_seeds(seed, ID, i)
        cases.append({"run_index": i, "kind": kind, "scenario_seed": ss["scenario"], "tier": tier, **kw})
        i += 1

    reps = 1 if quick else 6
    for _ in range(reps):
        for flow in ("zuko", "flowjax"):
            for sampler in ("importance", "smc"):
                add("twin", sampler=sampler, flow=flow, xp="torch" if flow == "zuko" else "jax", fresh=True)
            add("twin", sampler="importance", flow=flow, xp="numpy", fresh=not quick)
    for _ in range(2 if quick else 20):
        for sampler in ("importance", "minipcn", "smc"):
            for xp in ("numpy", "torch", "jax"):
                add("twin", sampler=sampler, flow="simflow", xp=xp, fresh=(xp == "numpy" and not quick) or (quick and sampler == "smc" and xp == "numpy"))
    for _ in range(3 if quick else 40):
        for route, api in (("ctor", "sampler"), ("sample", "sampler"), ("top", "aspire")):
            for xp in ("numpy", "torch", "jax"):
                add("route", sampler="smc", flow="simflow", xp=xp, route=route, api=api)
        for route, api in (("sample", "sampler"), ("top", "aspire")):
            add("route", sampler="minipcn", flow="simflow", xp="numpy", route=route, api=api)
        add("route", sampler="emcee", flow="simflow", xp="numpy", route="top", api="aspire")
        # a generator-like object that is not a numpy Generator (what orng.ArrayRNG is for torch / jax users)
        for route, api in (("ctor", "sampler"), ("sample", "sampler"), ("top", "aspire")):
            add("route", sampler="smc", flow="simflow", xp="numpy", route=route, api=api, rng_kind="duck")
        add("route", sampler="minipcn", flow="simflow", xp="numpy", route="top", api="aspire", rng_kind="duck")
    for _ in range(4 if quick else 40):
        add("seed", sampler="smc", flow="simflow", xp="numpy", route="sample", api="sampler")
        add("seed", sampler="minipcn", flow="simflow", xp="numpy", route="top", api="aspire")
    # the documented way from weighted importance samples to unweighted posterior draws takes a generator too
    for _ in range(2 if quick else 20):
        for xp in ("numpy", "torch", "jax"):
            add("rejection", sampler="importance", flow="simflow", xp=xp, rng_kind=None)
        add("rejection", sampler="importance", flow="simflow", xp="numpy", rng_kind="duck")
    from . import c05_blackjax

    return c05_blackjax.cases(ID, seed, tier, n_quick=4, n_thorough=40) + cases


def scenario_of(case):
    if "scenario" in case:
        return case["scenario"]
    if case.get("kind") == "blackjax":
        from . import c05_blackjax

        return c05_blackjax.scenario(case)
    return build_scenario(case["scenario_seed"], case["sampler"], case["flow"], case["xp"], case.get("route", "ctor"),
                          case.get("api", "aspire"), case.get("rng_kind"))


def run_digest(scn):
    """Executed in this or in a fresh interpreter: one process, digest of everything returned."""
    wd = tempfile.mkdtemp(prefix="aspire-sim-", dir="/dev/shm" if os.path.isdir("/dev/shm") else None)
    try:
        r = run_process(scn, wd, fresh_file=True)
        return {"status": r.status, "error": r.error, "digest": digest_of(r.summary()), "trace": r.trace.digest(),
                "entropy": r.entropy_requests}
    finally:
        shutil.rmtree(wd, ignore_errors=True)


def fresh_digest(scn, hashseed):
    env = dict(os.environ)
    env["PYTHONHASHSEED"] = str(hashseed)
    env["PYTHONPATH"] = ROOT + os.pathsep + env.get("PYTHONPATH", "")
    p = subprocess.run([sys.executable, "-m", "sim.worker", "sim.checks.c20", "run_digest"], input=json.dumps(scn),
                       capture_output=True, text=True, env=env, cwd=ROOT, timeout=500)
    for line in p.stdout.splitlines()[::-1]:
        if line.startswith("@@RESULT@@"):
            return json.loads(line[len("@@RESULT@@"):])
    raise RuntimeError(f"fresh interpreter gave no result: rc={p.returncode} {p.stderr[-800:]}")


def run_case(case, workdir):
    if case.get("kind") == "blackjax":
        from . import c05_blackjax

        return c05_blackjax.judge(case, workdir, scenario_of(case), want=('c20',))
    scn = scenario_of(case)
    kind = case["kind"]
    where = {**O.scn_where(scn), "kind": kind, "route": scn["rng_route"], "api": scn["api"], "generator": scn.get("rng_kind") or "numpy Generator"}
    V, probes, keys = [], {}, []
    evaluations, events = 0, 0
    r1 = run_process(scn, workdir, fresh_file=True)
    evaluations += 1
    events += len(r1.trace.events)
    if r1.status != "ok":
        return {"violations": [], "aborted": {"why": "run did not finish", "error": r1.error, "tb": (r1.tb or "")[-1200:],
                                               "sampler": scn["sampler"], "flow": scn["flow"]["backend"], "xp": scn["xp"]},
                "evaluations": 1, "events": events, "nontrivial_keys": [], "digest": digest_of(r1.status)}
    d1 = digest_of(r1.summary())
    key = [kind, scn["sampler"], scn["flow"]["backend"], scn["xp"], scn["rng_route"] if kind != "twin" else None, scn.get("rng_kind")]
    if kind == "twin":
        r2 = run_process(scn, workdir, fresh_file=True)
        evaluations += 1
        d2 = digest_of(r2.summary())
        if d1 != d2:
            from ..crashloop import diff_summaries

            V.append(O.violation("c20.twin_inprocess", "two runs with identical seeds/keys/generators in one process differ in "
                                 f"{diff_summaries(r1.summary(), r2.summary())[:6]}", where))
        if r1.trace.digest() != r2.trace.digest():
            V.append(O.violation("c20.twin_trace", "two identically seeded runs produced different seam traces", where))
        if case.get("fresh"):
            f = fresh_digest(scn, hashseed=12345 + case["run_index"])
            evaluations += 1
            probes["fresh_interpreter_runs"] = 1
            if f["status"] != "ok":
                V.append(O.violation("c20.twin_fresh", f"fresh interpreter run did not finish: {f['error']}", where))
            elif f["digest"] != d1:
                V.append(O.violation("c20.twin_fresh", "the same seeds in a fresh interpreter (other PYTHONHASHSEED) give a different result", where))
        keys.append(key + [bool(case.get("fresh"))])
    elif kind == "route":
        g = r1.user_rng
        others = sorted({kw.get("who") for _, k, kw in r1.trace.events if k.startswith("rng.") and kw.get("who") != "user"})
        n_rng_events = sum(1 for _, k, kw in r1.trace.events if k.startswith("rng."))
        if g is None or g.n_draws == 0:
            V.append(O.violation("c20.supplied_rng_unused",
                                 f"a generator supplied via {scn['rng_route']} ({scn['api']} API) to sampler '{scn['sampler']}' was never drawn from "
                                 f"({n_rng_events} random draws were made by {others or 'nobody'})", where))
        elif others:
            V.append(O.violation("c20.other_generator_used",
                                 f"generator supplied via {scn['rng_route']}: draws were also made by {others}", where))
        if r1.entropy_requests:
            # an unseeded generator that is created but never drawn from does not
            # affect reproducibility: counted, not judged
            probes["entropy_requests_with_supplied_rng"] = r1.entropy_requests
        keys.append(key)
    elif kind == "rejection":
        from ..core import entropy_seam, to_np
        from ..rng import make_generator
        from ..runner import DuckGenerator

        smp = r1.samples
        wr = {**where, "route": "rejection_sample", "api": "Samples.rejection_sample"}

        def draw(seed_):
            g_ = make_generator(int(seed_), trace=None, name="user", backend=scn["xp"])
            arg = DuckGenerator(g_) if scn.get("rng_kind") == "duck" else g_
            with entropy_seam(int(scn["seeds"]["entropy"]) + 77, None) as es_:
                out_ = smp.rejection_sample(rng=arg)
            return g_, es_.requests, np.asarray(to_np(out_.x), dtype=np.float64)

        base = int(scn["seeds"]["rng"]) + 5
        g, n_entropy, xa = draw(base)
        evaluations += 1
        if g.n_draws == 0:
            V.append(O.violation("c20.supplied_rng_unused", "the generator handed to Samples.rejection_sample(rng=...) was never drawn from"
                                 + (f" ({n_entropy} unseeded generators were created instead)" if n_entropy else ""), wr))
        elif n_entropy:
            V.append(O.violation("c20.other_generator_used", f"Samples.rejection_sample(rng=...) also created {n_entropy} unseeded generator(s)", wr))
        _, _, xb = draw(base)
        if xa.shape != xb.shape or not np.array_equal(xa, xb):
            V.append(O.violation("c20.twin_inprocess", "two rejection-sampling passes over the same weighted set with identically seeded generators "
                                 f"kept different rows ({len(xa)} vs {len(xb)})", wr))
        # another seed must be able to change the outcome -- judged only when enough rows have an acceptance probability away
        # from 0 and 1 (otherwise the same rows are kept whatever the uniforms are)
        lw = np.asarray(to_np(smp.log_w), dtype=np.float64)
        pacc = np.exp(lw - np.max(lw))
        undecided = int(np.sum((pacc > 0.1) & (pacc < 0.9)))
        if undecided >= 8:
            same = sum(1 for k_ in range(1, 4) if (lambda xc: xc.shape == xa.shape and np.array_equal(xc, xa))(draw(base + k_)[2]))
            if same == 3:
                V.append(O.violation("c20.seed_ignored", "three other generator seeds kept exactly the same rows in Samples.rejection_sample", wr))
            probes["rejection_seed_sensitivity_judged"] = 1
        probes["rejection_sample_calls"] = 5
        keys.append(["rejection", scn["xp"], scn.get("rng_kind")])
    elif kind == "seed":
        s2 = copy.deepcopy(scn)
        s2["seeds"]["rng"] = scn["seeds"]["rng"] + 1
        r2 = run_process(s2, workdir, fresh_file=True)
        evaluations += 1
        if r2.status == "ok" and digest_of(r2.summary()) == d1:
            V.append(O.violation("c20.seed_ignored", "changing only the supplied generator's seed did not change the result", where))
        keys.append(key)
    return {
        "violations": V, "aborted": None, "evaluations": evaluations, "events": events,
        "iterations": len(r1.history.beta) if r1.history is not None and hasattr(r1.history, "beta") else 0,
        "probes": probes, "faults_fired": {"entropy_request": r1.entropy_requests} if r1.entropy_requests else {},
        "nontrivial_keys": keys, "digest": digest_of([d1, [(v["oracle"], v["message"]) for v in V]]),
        "sample": jsonable({"kind": kind, "sampler": scn["sampler"], "flow": scn["flow"]["backend"], "xp": scn["xp"],
                            "route": scn["rng_route"], "api": scn["api"], "digest": d1[:16], "entropy_requests": r1.entropy_requests,
                            "supplied_generator_draws": r1.user_rng_draws}),
    }
