"""C05 -- kernels are handed the correct (tempered) target in the preconditioned space."""

from __future__ import annotations

import copy

import numpy as np

from .. import model as M
from .. import oracles as O
from ..core import digest_of, jsonable, rng_from, stream_seeds, to_np
from ..env import Target
from ..runner import run_process
from ..swarm import pick
from . import runs
from .common import shrink_scenario_candidates

ID = "C05"
LEVEL = "exploration"
RULE = (
    "case = one whole run (minipcn SMC, emcee SMC, minipcn MCMC, emcee MCMC) x preconditioning (identity, periodic, logit, "
    "probit, affine, affine+bounded) x namespace x dtype on a target with a zero-prior hole and (SMC) a NaN-likelihood slab. "
    "The stub kernel receives the very log_prob_fn aspire built (kernel seam). For EVERY point z it evaluates -- chain points "
    "and simulator probes aimed at out-of-prior points, the prior hole, the NaN slab and random neighbours -- the simulator "
    "pairs three seam observations of the same call: z, the x that reached the user's prior/likelihood, and the returned "
    "value; oracle: value == (1-beta) log q(x) + beta (log L(x) + log pi(x)) + log|det dx/dz| (beta=1, no q term for plain "
    "MCMC) with q, L, pi recomputed by the simulator and the Jacobian and pre-image from the simulator's own closed-form "
    "composite (affine fitted from the start positions it observed); zero prior => exactly -inf; NaN tempered value in SMC "
    "=> -inf. evaluations = points judged; non-trivial = run with judged kernel evaluations; distinct_nontrivial counts "
    "distinct (sampler, preconditioning, namespace, dtype, probe kinds hit) tuples. BlackJAXSMC (its own copy of the target, "
    "evaluated under vmap/scan) runs through a jax-written stand-in for the absent blackjax (random-walk kernel) with a "
    "jax-traceable twin of the model and proposal: every start position and every (z, value) the kernel evaluates is exported "
    "through jax.debug.callback, the finished kernel's function is also asked eagerly about hole / NaN-slab / far points before "
    "the next refit, and all of them are judged by the same closed-form oracle."
)
ASSUMPTIONS = [
    "stub kernels (minipcn, emcee, and a random-walk-only stand-in for blackjax: BlackJAXSMC's nuts/hmc branches are not run); "
    "preconditioning='flow' is judged separately (black-box finite differences)",
]
COMPONENTS = runs.COMPONENTS
BUDGET_S = {"quick": 150, "thorough": 1500}


def gen_cases(seed, tier):
    n = 320 if tier == "quick" else 6000
    out = []
    for i in range(n):
        ss = stream_seeds(seed, ID, i)
        out.append({"run_index": i, "scenario_seed": ss["scenario"], "fault_seed": ss["faults"], "tier": tier})
    # preconditioning="flow": black-box finite-difference Jacobian through the kernel seam, real flow back-ends
    combos = [("zuko", "numpy"), ("zuko", "torch"), ("flowjax", "numpy"), ("flowjax", "jax")]
    if tier != "quick":
        combos = combos * 3 + [("zuko", "jax"), ("flowjax", "torch")]
    # BlackJAXSMC (its own copy of the target, evaluated under vmap / scan) through the stand-in blackjax
    nb = 16 if tier == "quick" else 400
    for j in range(nb):
        ss = stream_seeds(seed, ID, 60000 + j)
        out.insert(j, {"run_index": 60000 + j, "kind": "blackjax", "scenario_seed": ss["scenario"], "fault_seed": ss["faults"], "tier": tier})
    for j, (backend, xp) in enumerate(combos):
        ss = stream_seeds(seed, ID, 50000 + j)
        out.insert(j, {"run_index": 50000 + j, "kind": "flowpre", "backend": backend, "xp": xp, "scenario_seed": ss["scenario"],
                       "fault_seed": ss["faults"], "tier": tier})
    return out


def flowpre_scenario(case):
    """preconditioning='flow' with a REAL flow back-end (the repo's ZukoFlow / FlowJax forward/inverse are the map)."""
    from .c20 import FLOWS
    from ..runner import default_scenario
    from ..env import make_target

    rng = rng_from(case["scenario_seed"])
    t = make_target("gauss_box", 2, rng)
    fl, fit = FLOWS[case["backend"]]
    fl = dict(fl)
    scn = default_scenario(t, sampler="smc", n_samples=24, xp=case["xp"], dtype="float64",
                           sample_kwargs={"sampler_kwargs": {"n_steps": 1}, "target_efficiency": 0.6},
                           preconditioning="flow", preconditioning_kwargs={"fit_kwargs": dict(fit)}, fit_kwargs=dict(fit),
                           train={"n": 200, "shift": 1.0, "widen": 1.4},
                           seeds={"rng": int(rng.integers(1 << 30)), "entropy": int(rng.integers(1 << 30)), "train": int(rng.integers(1 << 30)), "torch": int(rng.integers(1 << 30))})
    scn["flow"] = fl
    scn["_precond"] = "flow"
    scn["_schedule_mode"] = "adaptive"
    return scn


def scenario_of(case):
    if "scenario" in case:
        return case["scenario"]
    if case.get("kind") == "flowpre":
        return flowpre_scenario(case)
    if case.get("kind") == "blackjax":
        from . import c05_blackjax

        return c05_blackjax.scenario(case)
    rng = rng_from(case["scenario_seed"])
    scn = runs.draw_any(int(rng.integers(1 << 62)), case["tier"], samplers=("smc", "smc", "emcee_smc", "minipcn", "emcee"),
                        checkpoint_modes=("none",), n_final=("none", "larger"), kinds=("gauss_box", "hug", "periodic", "bimodal"),
                        dims=(1, 2, 3))
    t = scn["target"]
    d = t["dims"]
    # a zero-prior hole and a NaN slab, both inside the box, on the last dimension, away from the bulk
    j = d - 1
    lo, hi = t["lower"][j], t["upper"][j]
    w = hi - lo
    if t["factor"][j] != "vm":
        t["prior_hole"] = [j, lo + 0.06 * w, lo + 0.10 * w]
        if scn["sampler"] in ("smc", "emcee_smc"):
            t["nan_region"] = [j, lo + 0.015 * w, lo + 0.04 * w]
    # proposals that stay (mostly) inside the prior so initial draws rarely hit the slab
    scn["flow"]["alpha"] = 0.0
    return scn


class CModel:
    """The simulator's own closed-form model of the configured preconditioning."""

    def __init__(self, scn):
        t = Target.from_dict(scn["target"])
        self.t = t
        pc = scn["preconditioning"]
        kw = scn["preconditioning_kwargs"] or {}
        sampler = scn["sampler"]
        if pc is None:
            pc = "none" if sampler == "importance" else "default"
        self.identity = pc == "none"
        d = t.dims
        per = np.array([f == "vm" for f in t.factor]) if scn.get("periodic", True) else np.zeros(d, bool)
        b2u = bool(kw.get("bounded_to_unbounded", False))
        self.m = M.CompositeModel(
            t.lower, t.upper,
            periodic_mask=per if not self.identity else np.zeros(d, bool),
            bounded_mask=(~per if b2u else np.zeros(d, bool)) if not self.identity else np.zeros(d, bool),
            bounded=kw.get("bounded_transform", "logit"),
            affine=bool(kw.get("affine_transform", False)) and not self.identity,
        )

    def fit_from(self, x0, z0=None, bits=64):
        lim = (4.0 if self.m.bounded == "logit" else 2.5) if bits == 32 else None
        return self.m.fit(np.asarray(x0, dtype=np.float64), z0, well_conditioned_below=lim)

    def forward(self, x):
        y = self.m.pre_affine_forward(np.asarray(x, dtype=np.float64))
        if self.m.affine:
            y = (y - self.m.mean) / self.m.std
        return y

    def inverse(self, z):
        return self.m.inverse(z)


FD_H = 1e-4


def run_flowpre_case(case, workdir):
    """Black-box oracle: the simulator knows nothing about the map.  Around a few start points of every kernel it asks the
    log_prob_fn about z +- h e_j, reads the x that reaches the user's model, forms dx/dz by central differences and
    requires value(z) == (1-beta) log q(x) + beta (log L + log pi)(x) + log|det dx/dz|."""
    scn = scenario_of(case)
    where = {**O.scn_where(scn), "backend": case["backend"]}
    t = Target.from_dict(scn["target"])
    d = t.dims
    M_PTS = 3

    def probe_fn(ki, z0):
        pts = []
        for i in range(min(M_PTS, len(z0))):
            for j in range(d):
                for sgn in (1.0, -1.0):
                    p = z0[i].copy()
                    p[j] += sgn * FD_H
                    pts.append(p)
        return [np.asarray(pts)]

    r = run_process(scn, workdir, fresh_file=True, record_kernel=True, probe_fn=probe_fn)
    key = ["smc", "flow:" + case["backend"], scn["xp"], scn["dtype"], []]
    if r.status != "ok":
        v = O.violation("c05.flow_preconditioning_raised",
                        f"preconditioning='flow' with flow_backend={case['backend']!r} (sample namespace {scn['xp']}) raised {r.error}",
                        {**where, "error_type": r.error_type}, tb=(r.tb or "")[-1500:])
        return {"violations": [v], "aborted": None, "evaluations": 1, "events": len(r.trace.events), "nontrivial_keys": [key],
                "digest": digest_of([r.error]), "sample": jsonable({"flowpre": case["backend"], "xp": scn["xp"], "status": r.status, "error": r.error}),
                "probes": {}, "faults_fired": {}}
    flow = r.aspire.flow
    V, judged = [], 0
    by_kernel = {}
    for e in r.seam.evals:
        by_kernel.setdefault(e["i"], []).append(e)
    for ki, evs in sorted(by_kernel.items()):
        c0 = next((e for e in evs if e["kind"] == "chain0"), None)
        pr = next((e for e in evs if e["kind"] == "probe"), None)
        if c0 is None or pr is None or c0["prior"] is None or pr["prior"] is None:
            continue
        z0 = np.asarray(c0["z"], dtype=np.float64)
        x0 = np.asarray(c0["prior"][0], dtype=np.float64)
        val = np.asarray(c0["val"], dtype=np.float64).reshape(-1)
        xp_ = np.asarray(pr["prior"][0], dtype=np.float64)
        beta = float(c0["beta"])
        lq = np.asarray(to_np(flow.log_prob(x0)), dtype=np.float64)
        ll, lp = t.log_like(x0), t.log_prior(x0)
        n_pts = min(M_PTS, len(z0))
        for i in range(n_pts):
            J = np.zeros((d, d))
            for j in range(d):
                xa = xp_[(i * d + j) * 2]
                xb = xp_[(i * d + j) * 2 + 1]
                J[:, j] = (xa - xb) / (2 * FD_H)
            sign, logdet = np.linalg.slogdet(J)
            if not np.isfinite(lp[i]) or not np.isfinite(ll[i]):
                continue
            want = (1 - beta) * lq[i] + beta * (ll[i] + lp[i]) + logdet
            judged += 1
            tol = 5e-2  # the zuko/flowjax preconditioning flows evaluate in float32; FD noise ~1e-3..1e-2, a missing term is O(1)
            if not np.isfinite(val[i]) or abs(val[i] - want) > tol * (1 + abs(logdet)):
                V.append(O.violation(
                    "c05.flow_value",
                    f"kernel {ki} (beta={beta!r}), preconditioning='flow' ({case['backend']}): value handed to the kernel {val[i]!r}, tempered target "
                    f"{float((1 - beta) * lq[i] + beta * (ll[i] + lp[i]))!r} + finite-difference log|det dx/dz| {float(logdet)!r} = {float(want)!r}",
                    where, diff=float(val[i] - want)))
                break
    return {"violations": V, "aborted": None, "evaluations": max(judged, 1), "events": len(r.trace.events), "iterations": len(r.history.beta),
            "probes": {"flow_preconditioning_points_judged": judged}, "faults_fired": {"kernel_probe": judged * 2 * d},
            "nontrivial_keys": [key] if judged else [], "digest": digest_of([r.summary().get("h.beta"), [v["oracle"] for v in V]]),
            "sample": jsonable({"flowpre": case["backend"], "xp": scn["xp"], "points_judged": judged})}


def run_case(case, workdir):
    if case.get("kind") == "flowpre":
        return run_flowpre_case(case, workdir)
    if case.get("kind") == "blackjax":
        from . import c05_blackjax

        return c05_blackjax.run_case(case, workdir, scenario_of(case))
    scn = scenario_of(case)
    rng = rng_from(case["fault_seed"])
    where = O.scn_where(scn)
    sampler = scn["sampler"]
    is_smc = sampler in ("smc", "emcee_smc")
    cm = CModel(scn)
    t = cm.t
    probe_kinds = {}

    def probe_fn(ki, z0):
        """Probe points for kernel number ki given its start positions (numpy, in z)."""
        out = []
        n, d = z0.shape
        sd = np.where(z0.std(axis=0) > 0, z0.std(axis=0), 1.0)
        # random neighbours
        out.append(z0[: min(n, 8)] + 0.3 * sd * rng.normal(size=(min(n, 8), d)))
        # far away: outside the prior box whenever the map is not bounded in that dimension
        out.append(z0[: min(n, 4)] + 60.0 * sd * np.sign(rng.normal(size=(min(n, 4), d))))
        # aim at the prior hole / NaN slab through the model's own forward map of the previous fit
        try:
            x_guess, _ = None, None
            cm_local = CModel(scn)
            # rough affine guess from z0 itself is not available before the first evaluation; use box coordinates
            for name, reg in (("hole", t.prior_hole), ("nan", t.nan_region)):
                if reg is None:
                    continue
                j, a, b = reg
                m = 6
                x = np.array([[rng.uniform(lo + 0.2 * (hi - lo), lo + 0.8 * (hi - lo)) for lo, hi in zip(t.lower, t.upper)] for _ in range(m)])
                x[:, j] = rng.uniform(a + 0.1 * (b - a), b - 0.1 * (b - a), size=m)
                if cm_local.m.affine:
                    if "last_fit" not in probe_state:
                        continue
                    cm_local.m.mean, cm_local.m.std = probe_state["last_fit"]
                out.append(cm_local.forward(x))
                probe_kinds[name] = probe_kinds.get(name, 0) + m
        except Exception:
            pass
        return out

    probe_state = {}
    # the affine fit of kernel k is only observable after its first evaluation; aim region probes with the previous
    # kernel's fit (populations move slowly) -- landing is verified from the model-seam x, never assumed
    r = run_process(scn, workdir, fresh_file=True, record_kernel=True, probe_fn=probe_fn)
    if r.status != "ok":
        benign = r.error_type == "ValueError" and "contains NaN" in (r.error or "")
        return {"violations": [], "aborted": {"why": "run did not finish", "error": r.error, "benign_initial_nan": benign, "tb": (r.tb or "")[-800:]},
                "evaluations": 1, "events": len(r.trace.events), "nontrivial_keys": [], "digest": digest_of(r.status),
                "probes": {"initial_population_hit_nan_slab": 1} if benign else {}}
    flow = r.aspire.flow
    bits = O.run_bits(r, scn) if is_smc else (32 if (scn["dtype"] or ("float32" if scn["xp"] == "torch" else "")).endswith("32") else 64)
    V, probes = [], {}
    judged = 0
    hits = {"out_of_prior": 0, "prior_hole": 0, "nan_slab": 0, "chain": 0, "probe": 0}
    by_kernel = {}
    for e in r.seam.evals:
        by_kernel.setdefault(e["i"], []).append(e)
    lo, hi = np.asarray(t.lower), np.asarray(t.upper)
    mut = [e for e in r.seam.evals if e.get("mutated")]
    if mut:
        e = mut[0]
        V.append(O.violation(
            "c05.argument_mutated",
            f"kernel {e['i']}: the log-density function aspire handed to the kernel overwrote the kernel's own position array in "
            f"place ({len(mut)} of {len(r.seam.evals)} evaluations): after the call the kernel holds x-space coordinates, so the value "
            f"returned no longer belongs to the point the kernel keeps", where, n_mutated=len(mut)))
    # which temperature must each kernel have been given?  kernel i (1-based) belongs to iteration i and must use the
    # recorded beta_i; a kernel after the last iteration is the final enlargement, whose particles were resampled to 1.0
    if is_smc and r.history is not None and hasattr(r.history, "beta"):
        hb = [float(to_np(b)) for b in r.history.beta]
        for st_ in r.seam.starts:
            i = st_["i"]
            want_b = hb[i - 1] if i <= len(hb) else 1.0
            if st_["beta"] is None or float(st_["beta"]) != want_b:
                V.append(O.violation(
                    "c05.kernel_temperature",
                    f"kernel {i} was handed the target at beta={st_['beta']!r}, but "
                    + (f"iteration {i} moved the population to beta={want_b!r}" if i <= len(hb) else "it mutates the final population, which was resampled to beta=1.0"),
                    {**where, "stage": "iteration" if i <= len(hb) else "final_enlargement"}))
                break
    for ki, evs in sorted(by_kernel.items()):
        if mut:
            break
        c0 = next((e for e in evs if e["kind"] == "chain0"), None)
        if c0 is None or c0["prior"] is None:
            continue
        x0 = np.asarray(c0["prior"][0], dtype=np.float64)
        z0 = np.asarray(c0["z"], dtype=np.float64)
        zfit = cm.fit_from(x0, z0, bits)
        probe_state["last_fit"] = (cm.m.mean, cm.m.std)
        ztol = (5e-3 if bits == 32 else 1e-6)
        dz = np.abs(zfit - z0) if zfit.shape == z0.shape else None
        if dz is not None and cm.m.pm.any():
            # a coordinate within rounding of the period edge may wrap to either end: compare on the circle
            per_w = (np.asarray(t.upper) - np.asarray(t.lower))[cm.m.pm] / (np.abs(cm.m.std[cm.m.pm]) if cm.m.affine else 1.0)
            dz[:, cm.m.pm] = np.minimum(dz[:, cm.m.pm], np.abs(per_w - dz[:, cm.m.pm]))
        if dz is not None and bits == 32 and cm.m.bm.any():
            # rows next to a bound are not decidable in float32 (see CompositeModel.fit): judge the well-conditioned ones
            y0 = cm.m.pre_affine_forward(x0)
            lim = 4.0 if cm.m.bounded == "logit" else 2.5
            good = np.all(np.abs(y0[:, cm.m.bm]) < lim, axis=1)
            dz = dz[good] if good.any() else dz[:0]
            z0c = z0[good] if good.any() else z0[:0]
        else:
            z0c = z0
        if dz is None or (len(dz) and not np.all(dz <= ztol * (1 + np.abs(z0c)) + ztol * (1 + np.abs(z0c).max()))):
            # the start positions are not the model's forward image of the start coordinates
            V.append(O.violation("c05.start_positions", f"kernel {ki}: start positions are not the preconditioning image of the start coordinates "
                                 f"(max dev {float(np.max(np.abs(zfit - z0))) if zfit.shape == z0.shape else 'shape'})", where))
            continue
        for e in evs:
            if e["prior"] is None or e["like"] is None:
                continue
            z = np.asarray(e["z"], dtype=np.float64)
            val = np.asarray(e["val"], dtype=np.float64).reshape(-1)
            xs = np.asarray(e["prior"][0], dtype=np.float64)
            xl = np.asarray(e["like"][0], dtype=np.float64)
            if xs.shape != xl.shape or not np.array_equal(xs, xl, equal_nan=True):
                V.append(O.violation("c05.seam_pairing", f"kernel {ki}: prior and likelihood were evaluated on different points", where))
                continue
            if len(z) != len(val) or len(z) != len(xs):
                V.append(O.violation("c05.shape", f"kernel {ki}: {len(z)} points in, {len(val)} values out, {len(xs)} points at the model seam", where))
                continue
            beta = 1.0 if not is_smc else float(e["beta"])
            x_model, lj = cm.inverse(z)
            # bounded maps saturate in floating point far out in z (sigmoid -> exactly 0/1, log -> -inf): the
            # statement is about the exact map; such points are counted, not judged
            y_pre = z * cm.m.std + cm.m.mean if cm.m.affine else z
            sat_lim = 4.0 if bits == 32 else 15.0
            if cm.m.bounded == "probit":
                sat_lim = 2.5 if bits == 32 else 5.5
            saturated = np.any(np.abs(y_pre[:, cm.m.bm]) > sat_lim, axis=1) if cm.m.bm.any() else np.zeros(len(z), bool)
            width = hi - lo
            xtol = (5e-4 if bits == 32 else 1e-8)
            dx = np.abs(x_model - xs)
            per = cm.m.pm
            if per.any():
                dx[:, per] = np.minimum(dx[:, per], np.abs(width[per] - dx[:, per]))
            okx = np.all(dx <= xtol * (width + np.abs(xs)), axis=1) | ~np.all(np.isfinite(x_model), axis=1)
            lp = t.log_prior(xs)
            ll = t.log_like(xs)
            with np.errstate(all="ignore"):
                lq = flow._log_density(xs) if is_smc else np.zeros(len(xs))
                want = ((1.0 - beta) * lq if is_smc else 0.0) + beta * (ll + lp) + lj
            if is_smc:
                want = np.where(np.isnan(want), -np.inf, want)
            zero_prior = ~np.isfinite(lp)
            if sampler in ("minipcn", "emcee"):
                want = np.where(zero_prior, -np.inf, want)
            vt = dict(rtol=2e-3, atol=2e-3) if bits == 32 else dict(rtol=1e-8, atol=1e-8)
            if scn["xp"] == "torch" and bits == 64:
                # observation (DESIGN 7): with torch float64 the transforms build parts of the log-Jacobian with
                # torch.ones()/zeros() in the default float32, so log|J| carries float32 rounding (~1e-7 relative).
                # "equals" is judged at that resolution for torch rather than alarmed on.
                vt = dict(rtol=1e-6, atol=1e-6)
            kind = "probe" if e["kind"] == "probe" else "chain"
            for i in range(len(z)):
                judged += 1
                hits[kind] += 1
                outside = bool(np.any(xs[i] < lo) or np.any(xs[i] > hi))
                in_hole = zero_prior[i] and not outside
                in_nan = bool(np.isnan(ll[i]))
                hits["out_of_prior"] += outside
                hits["prior_hole"] += in_hole
                hits["nan_slab"] += in_nan and not zero_prior[i]
                wz = {**where, "point": "out_of_prior" if outside else ("prior_hole" if in_hole else ("nan_slab" if in_nan else kind))}
                if zero_prior[i]:
                    if not (np.isneginf(val[i])):
                        V.append(O.violation("c05.zero_prior_finite",
                                             f"kernel {ki}: a point with zero prior (x={xs[i].tolist()}) got log-density {val[i]!r} instead of -inf", wz))
                        break
                    continue
                if is_smc and np.isnan(want[i] if False else ((1.0 - beta) * lq[i] + beta * (ll[i] + lp[i]) + lj[i])):
                    if not np.isneginf(val[i]):
                        V.append(O.violation("c05.nan_propagated", f"kernel {ki}: undefined tempered value at x={xs[i].tolist()} was handed to the kernel as {val[i]!r}, not -inf", wz))
                        break
                    continue
                if saturated[i]:
                    hits["saturated"] = hits.get("saturated", 0) + 1
                    continue
                if not okx[i]:
                    V.append(O.violation("c05.preimage", f"kernel {ki}: the point z={z[i].tolist()} reached the user's model as x={xs[i].tolist()}, "
                                         f"but its pre-image under the configured preconditioning is {x_model[i].tolist()}", wz))
                    break
                if O.f32_unresolvable(bits, [ll[i], lp[i], lq[i], lj[i]], limit=1e-3):
                    continue
                if not (np.isfinite(val[i]) and np.isclose(val[i], want[i], **vt)) and not (val[i] == want[i]):
                    parts = {"(1-b)logq": float((1 - beta) * lq[i]) if is_smc else 0.0, "b(logL+logpi)": float(beta * (ll[i] + lp[i])), "logJ": float(lj[i])}
                    V.append(O.violation(
                        "c05.value",
                        f"kernel {ki} (beta={beta!r}): log-density handed to the kernel at z={np.round(z[i], 6).tolist()} is {val[i]!r}, the "
                        f"tempered target + log-Jacobian is {float(want[i])!r} (difference {float(val[i] - want[i])!r}; parts {parts})", wz,
                        diff=float(val[i] - want[i]), parts=parts))
                    break
    for k, v in hits.items():
        if v:
            probes["points:" + k] = int(v)
    key = [sampler, scn["_precond"], scn["xp"], scn["dtype"], sorted(k for k, v in hits.items() if v and k in ("out_of_prior", "prior_hole", "nan_slab"))]
    return {
        "violations": V, "aborted": None, "evaluations": max(judged, 1), "events": len(r.trace.events),
        "iterations": len(r.history.beta) if r.history is not None and hasattr(r.history, "beta") else 0,
        "probes": probes, "faults_fired": {"kernel_probe": hits["probe"], "zero_prior_answer": hits["out_of_prior"] + hits["prior_hole"], "nan_like_answer": hits["nan_slab"]},
        "nontrivial_keys": [key] if judged else [],
        "digest": digest_of([r.trace.digest(), [(v["oracle"], v["message"]) for v in V]]),
        "sample": jsonable({"sampler": sampler, "preconditioning": scn["_precond"], "preconditioning_kwargs": scn["preconditioning_kwargs"],
                            "xp": scn["xp"], "dtype": scn["dtype"], "points_judged": judged, "hits": hits}),
    }


def shrink_candidates(case):
    if case.get("kind") == "blackjax":
        return []  # the scenario is already small; the generic shrinkers assume the numpy model
    if case.get("kind") == "flowpre":
        return []
    scn = scenario_of(case)
    base = {k: v for k, v in case.items() if k != "scenario"}
    return [{**base, "scenario": s} for s in shrink_scenario_candidates(scn) if s["checkpoint"]["mode"] == "none" and s["preconditioning"] == scn["preconditioning"]]
