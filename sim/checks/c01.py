"""C01 -- posterior samples and evidence are statistically correct on known targets."""

from __future__ import annotations

import copy
import math

import numpy as np
from scipy import stats

from .. import oracles as O
from ..core import digest_of, jsonable, rng_from, stream_seeds, to_np
from ..env import Target, make_target
from ..harness import violation
from ..runner import default_scenario, run_process
from . import runs

ID = "C01"
LEVEL = "exploration"
RULE = (
    "case = one CELL = analytic target (gaussian in a box, truncated gaussian hugging a bound, periodic target on a circle, bimodal; "
    "1-4 dims) x sampler (importance; minipcn SMC on a fixed schedule with a fixed-scale stub kernel = exact cells; adaptive minipcn "
    "SMC; adaptive emcee SMC; minipcn MCMC) x preconditioning (none, default/periodic, logit, probit, affine, affine+bounded) x "
    "proposal (tight: all mass inside the prior support / leaky: a known fraction 1-A outside) x namespace, run as R seeded replicates "
    "that differ only in seed (one seed = one exactly repeatable execution, so the ensemble is a repeatable object). Statistical "
    "oracle against closed forms: replicate mean of Z_hat/Z within 1 +- (6 SE + b) with b = 0 in exact cells, and replicate-pooled "
    "posterior mean / variance (circular moments for periodic dimensions) within 6 SE + a stated finite-N allowance. Cells whose "
    "SE is too large are reported inconclusive, never as violations. In leaky SMC cells the known finding Z_hat -> Z/A is matched "
    "narrowly and Z_hat A / Z is still required to be 1. evaluations = runs; non-trivial = conclusive cell; distinct_nontrivial "
    "counts distinct conclusive cells."
)
ASSUMPTIONS = [
    "kernels are stubs (a correct random-walk Metropolis kernel): decided for aspire's side of the kernel contract; real minipcn/emcee/blackjax not run",
    "statistical oracle: O(1)-in-log errors are detected reliably, small biases (below the stated allowances) are not",
]
COMPONENTS = runs.COMPONENTS
BUDGET_S = {"quick": 85, "thorough": 1600}
K = 6.0


def cells(tier):
    out = []

    def add(**kw):
        c = dict(kind="gauss_box", dims=2, sampler="smc_fixed", precond="none", proposal="tight", xp="numpy", N=192)
        c.update(kw)
        out.append(c)

    quick = tier == "quick"
    # importance sampling: exact, every target
    for kind, d in (("gauss_box", 1), ("gauss_box", 2), ("hug", 2), ("periodic", 2), ("bimodal", 2), ("gauss_box", 4)):
        add(kind=kind, dims=d, sampler="importance", N=1500)
    add(kind="hug", dims=2, sampler="importance", proposal="leaky", N=1500)
    add(kind="gauss_box", dims=2, sampler="importance", xp="torch", N=1500)
    add(kind="gauss_box", dims=2, sampler="importance", xp="jax", N=1500)
    # SMC, exact cells: fixed schedule, every preconditioning option
    for pc in ("none", "default", "logit", "probit", "affine", "both"):
        add(kind="hug", dims=2, sampler="smc_fixed", precond=pc)
    for pc in ("default", "logit", "both"):
        add(kind="periodic", dims=2, sampler="smc_fixed", precond=pc)
    add(kind="gauss_box", dims=1, sampler="smc_fixed", precond="logit")
    add(kind="bimodal", dims=2, sampler="smc_fixed", precond="probit")
    add(kind="gauss_box", dims=2, sampler="smc_fixed", precond="both", xp="torch")
    add(kind="gauss_box", dims=2, sampler="smc_fixed", precond="logit", xp="jax")
    # adaptive cells
    for pc in ("default", "logit", "affine"):
        add(kind="hug", dims=2, sampler="smc_adaptive", precond=pc)
    add(kind="periodic", dims=2, sampler="smc_adaptive", precond="default")
    add(kind="gauss_box", dims=2, sampler="emcee_smc", precond="logit", N=128)
    # leaky proposal, SMC: the known finding (Z/A)
    add(kind="hug", dims=2, sampler="smc_fixed", precond="default", proposal="leaky")
    # plain MCMC: moments only
    add(kind="hug", dims=2, sampler="minipcn", precond="logit", N=256)
    add(kind="gauss_box", dims=2, sampler="minipcn", precond="none", N=256)
    if not quick:
        for kind, d in (("gauss_box", 3), ("gauss_box", 4), ("hug", 1), ("hug", 3), ("periodic", 1), ("periodic", 3), ("bimodal", 2)):
            for pc in ("none", "default", "logit", "probit", "affine", "both"):
                add(kind=kind, dims=d, sampler="smc_fixed", precond=pc, N=192 if d < 4 else 384)
                add(kind=kind, dims=d, sampler="smc_adaptive", precond=pc, N=192 if d < 4 else 384)
        for xp in ("torch", "jax"):
            for pc in ("default", "probit", "both"):
                add(kind="hug", dims=2, sampler="smc_fixed", precond=pc, xp=xp)
                add(kind="periodic", dims=2, sampler="smc_adaptive", precond=pc, xp=xp)
            add(kind="hug", dims=2, sampler="minipcn", precond="logit", xp=xp, N=256)
        for pc in ("none", "default", "logit", "probit", "affine", "both"):
            add(kind="hug", dims=2, sampler="emcee_smc", precond=pc, N=128)
            add(kind="hug", dims=2, sampler="minipcn", precond=pc, N=256)
    return out


PKW = {
    "none": ("none", None),
    "default": ("default", None),
    "logit": ("default", {"bounded_to_unbounded": True, "bounded_transform": "logit"}),
    "probit": ("default", {"bounded_to_unbounded": True, "bounded_transform": "probit"}),
    "affine": ("default", {"affine_transform": True}),
    "both": ("default", {"bounded_to_unbounded": True, "bounded_transform": "logit", "affine_transform": True}),
}


def gen_cases(seed, tier):
    out = []
    for i, c in enumerate(cells(tier)):
        ss = stream_seeds(seed, ID, i)
        out.append({"run_index": i, "cell": c, "seed": ss["scenario"] % (1 << 40), "tier": tier,
                    "R": 24 if tier == "quick" else 96})
    return out


def cell_scenario(cell, seed, rep):
    rng = rng_from(seed)  # the target and proposal are the same for every replicate of a cell
    t = make_target(cell["kind"], cell["dims"], rng)
    pc, pkw = PKW[cell["precond"]]
    sampler = cell["sampler"]
    sk = {}
    name = {"importance": "importance", "smc_fixed": "smc", "smc_adaptive": "smc", "emcee_smc": "emcee_smc", "minipcn": "minipcn"}[sampler]
    if sampler == "smc_fixed":
        sk = {"adaptive": False, "n_steps": 6, "sampler_kwargs": {"n_steps": 3}}
    elif sampler == "smc_adaptive":
        sk = {"adaptive": True, "target_efficiency": 0.5, "sampler_kwargs": {"n_steps": 3}}
    elif sampler == "emcee_smc":
        sk = {"adaptive": True, "target_efficiency": 0.5, "sampler_kwargs": {"nsteps": 4, "progress": False}}
    elif sampler == "minipcn":
        sk = {"n_steps": 150, "last_step_only": True}
    tight = cell["proposal"] == "tight"
    rr = rng_from(seed * 1000003 + rep + 1)
    scn = default_scenario(
        t, sampler=name, n_samples=cell["N"], sample_kwargs=sk, xp=cell["xp"], dtype="float64" if cell["xp"] == "torch" else None,
        preconditioning=None if name == "importance" else pc, preconditioning_kwargs=None if name == "importance" else copy.deepcopy(pkw),
        flow={"kind": "latent" if tight else "native", "alpha": 0.25 if tight else 0.0, "inflate": 1.6, "seed": int(rr.integers(1 << 30))},
        bounded_to_unbounded=tight, bounded_transform="logit",
        train={"n": 300, "shift": 0.6, "widen": 1.3},
        checkpoint={"mode": "none", "every": 1}, rng_route="top" if name in ("smc", "minipcn") else "none",
        kernel={"scale_mode": "fixed", "scale": 0.6} if sampler == "smc_fixed" else {"scale_mode": "population", "scale": 0.5},
        seeds={"rng": int(rr.integers(1 << 30)), "entropy": int(rr.integers(1 << 30)), "train": int(seed % (1 << 30)), "torch": int(rr.integers(1 << 30))},
    )
    return scn, t


def leak_mass(scn, t, flow):
    """A = proposal mass inside the prior box (closed form for the native Gaussian proposal)."""
    if scn["flow"]["kind"] != "native":
        return 1.0
    a = (np.asarray(t.lower) - flow.loc) / flow.scale
    b = (np.asarray(t.upper) - flow.loc) / flow.scale
    return float(np.prod(stats.norm.cdf(b) - stats.norm.cdf(a)))


def run_case(case, workdir):
    cell = case["cell"]
    R = case["R"]
    V, probes = [], {}
    sampler = cell["sampler"]
    has_evidence = sampler != "minipcn"
    exact = sampler in ("importance", "smc_fixed")
    logz, means, vars_, circ = [], [], [], []
    A_mass = 1.0
    t = None
    fails = 0
    n_iter = 0
    events = 0
    for rep in range(R):
        scn, t = cell_scenario(cell, case["seed"], rep)
        r = run_process(scn, workdir, fresh_file=True)
        events += len(r.trace.events)
        if r.status != "ok":
            fails += 1
            last_err = r.error
            continue
        if rep == 0:
            A_mass = leak_mass(scn, t, r.aspire.flow)
        s = r.samples
        x = np.asarray(to_np(s.x), dtype=np.float64)
        if sampler == "importance":
            lw = np.asarray(to_np(s.log_w), dtype=np.float64)
            w = np.exp(lw - np.max(lw))
            w = w / w.sum()
        else:
            w = np.full(len(x), 1.0 / len(x))
            n_iter += len(r.history.beta) if r.history is not None and hasattr(r.history, "beta") else 0
        if has_evidence:
            logz.append(float(to_np(s.log_evidence)))
        m = np.sum(w[:, None] * x, axis=0)
        v = np.sum(w[:, None] * (x - m) ** 2, axis=0)
        means.append(m)
        vars_.append(v)
        cc = []
        for i in range(t.dims):
            if t.factor[i] == "vm":
                cc.append([np.sum(w * np.cos(x[:, i] - t.mu[i])), np.sum(w * np.sin(x[:, i] - t.mu[i]))])
        circ.append(cc)
    where = {**cell}
    key = [cell[k] for k in ("kind", "dims", "sampler", "precond", "proposal", "xp")]
    if fails > R // 4:
        return {"violations": [], "aborted": {"why": f"{fails} of {R} replicates did not finish", "error": last_err, "cell": cell},
                "evaluations": R, "events": events, "nontrivial_keys": [], "digest": digest_of(["aborted", cell])}
    conclusive = True
    summary = {}
    true_mean, true_var = t.moments()
    sd = np.sqrt(true_var)
    leaky_smc = cell["proposal"] == "leaky" and sampler not in ("importance", "minipcn")
    if has_evidence:
        ratio = np.exp(np.asarray(logz) - t.log_Z())
        m, se = float(ratio.mean()), float(ratio.std(ddof=1) / math.sqrt(len(ratio)))
        summary["Zhat_over_Z"] = [m, se]
        b = 0.0 if exact else 0.05
        if se > 0.08:
            conclusive = False
            probes["evidence_inconclusive"] = 1
        else:
            wz = {**where, "exact_cell": exact, "leaky": leaky_smc}
            if abs(m - 1.0) > K * se + b:
                # narrow description of the deviation so a known finding can match exactly this one
                ma = m * A_mass
                consistent_with_leak = leaky_smc and abs(ma - 1.0) <= K * se * A_mass + b
                V.append(violation(
                    "c01.evidence_leaky_proposal" if consistent_with_leak else "c01.evidence",
                    f"cell {cell}: replicate mean of Z_hat/Z = {m:.4f} +- {se:.4f} over {len(ratio)} runs (expected 1 within {K:.0f} SE + {b})"
                    + (f"; the proposal leaks 1-A = {1 - A_mass:.3f} of its mass outside the prior and Z_hat A / Z = {ma:.4f}" if leaky_smc else ""),
                    wz, mean=m, se=se, A=A_mass))
            elif leaky_smc:
                probes["leaky_cell_unbiased"] = 1
    # posterior moments
    means = np.asarray(means)
    vars_ = np.asarray(vars_)
    allow_m = {"importance": 0.02, "smc_fixed": 0.06, "smc_adaptive": 0.06, "emcee_smc": 0.08, "minipcn": 0.15}[sampler]
    allow_v = {"importance": 0.05, "smc_fixed": 0.10, "smc_adaptive": 0.10, "emcee_smc": 0.15, "minipcn": 0.35}[sampler]
    for i in range(t.dims):
        if t.factor[i] == "vm":
            continue
        mm, se_m = float(means[:, i].mean()), float(means[:, i].std(ddof=1) / math.sqrt(len(means)))
        vv, se_v = float(vars_[:, i].mean()), float(vars_[:, i].std(ddof=1) / math.sqrt(len(vars_)))
        summary[f"mean{i}"] = [mm, se_m, float(true_mean[i])]
        summary[f"var{i}"] = [vv, se_v, float(true_var[i])]
        if se_m > 0.25 * sd[i] or se_v > 0.3 * true_var[i]:
            conclusive = False
            probes["moments_inconclusive"] = 1
            continue
        if abs(mm - true_mean[i]) > K * se_m + allow_m * sd[i]:
            V.append(violation("c01.posterior_mean",
                               f"cell {cell}: posterior mean of dimension {i} = {mm:.4f} +- {se_m:.4f}, closed form {true_mean[i]:.4f} (posterior sd {sd[i]:.4f})",
                               {**where, "dim": i}, got=mm, want=float(true_mean[i])))
        if abs(vv - true_var[i]) > K * se_v + allow_v * true_var[i]:
            V.append(violation("c01.posterior_variance",
                               f"cell {cell}: posterior variance of dimension {i} = {vv:.5f} +- {se_v:.5f}, closed form {true_var[i]:.5f}",
                               {**where, "dim": i}, got=vv, want=float(true_var[i])))
    # circular moments
    ci = 0
    for i in range(t.dims):
        if t.factor[i] != "vm":
            continue
        arr = np.asarray([c[ci] for c in circ])
        ci += 1
        a1, var_c = t.circ_moments(i)
        mc, se_c = float(arr[:, 0].mean()), float(arr[:, 0].std(ddof=1) / math.sqrt(len(arr)))
        ms, se_s = float(arr[:, 1].mean()), float(arr[:, 1].std(ddof=1) / math.sqrt(len(arr)))
        summary[f"circ{i}"] = [mc, se_c, float(a1), ms, se_s]
        if abs(mc - a1) > K * se_c + 0.03 or abs(ms) > K * se_s + 0.03:
            V.append(violation("c01.circular_moments",
                               f"cell {cell}: E[cos(x-mu)] = {mc:.4f} +- {se_c:.4f} (closed form {a1:.4f}), E[sin(x-mu)] = {ms:.4f} +- {se_s:.4f} (closed form 0)",
                               {**where, "dim": i}))
    return {
        "violations": V, "aborted": None, "evaluations": R, "events": events, "iterations": n_iter,
        "probes": probes, "faults_fired": {}, "nontrivial_keys": [key] if conclusive else [],
        "digest": digest_of([cell, summary, [(v["oracle"]) for v in V]]),
        "sample": jsonable({"cell": cell, "replicates": R - fails, "summary": summary, "proposal_mass_in_prior": A_mass}),
    }
