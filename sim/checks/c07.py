"""C07 -- adaptive temperature steps meet the ESS target and are maximal."""

from . import sched

ID = "C07"
LEVEL = "exploration"
RULE = (
    "case = one whole adaptive SMC run (same swarm as C06); for EVERY iteration the simulator recomputes, from the "
    "population the step was computed on (history.sample_history[i-1]) with its own incremental weights and ESS, the "
    "two-sided bisection post-condition: ESS(beta_new)/N >= target - eps and, if beta_new < 1, ESS(beta_new + 4 tol)/N < "
    "target + eps; for a ramp the target is bracketed by its values at beta_prev and beta_new; steps the model's own floor "
    "arithmetic (min_step, max_n_steps-derived floor, using the model's own root of the ESS curve) shows were forced are "
    "exempt and counted. evaluations = runs; non-trivial = run with >= 1 adaptive iteration; distinct_nontrivial counts "
    "distinct (schedule mode, target kind, namespace, dtype, min(iterations,12), status); probes count interior crossings, "
    "full steps and floor-forced steps."
)
ASSUMPTIONS = [
    "populations are the ones whole runs reach (peaked targets make the ESS curve cross the target strictly inside the bracket); "
    "the statement's 'every population' is sampled through the model seam, not enumerated",
]
COMPONENTS = sched.COMPONENTS
BUDGET_S = {"quick": 80, "thorough": 1500}


def gen_cases(seed, tier):
    return [c for c in sched.gen_cases(ID, seed, tier) if not c.get("force") and c.get("kind") != "changed_resume"]


def run_case(case, workdir):
    out = sched.run_schedule_case(case, workdir, want=("c07",))
    scn = sched.scenario_of(case)
    if not scn["sample_kwargs"].get("adaptive", True):
        out["nontrivial_keys"] = []
    return out


shrink_candidates = sched.shrink_candidates
