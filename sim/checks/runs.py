"""Scenario swarm over every sampler type (importance, minipcn MCMC, emcee MCMC,
minipcn SMC, emcee SMC) for the run-level checks C08 / C10 / C17."""

from __future__ import annotations

import copy

from ..core import rng_from, stream_seeds
from ..swarm import draw_smc_scenario, pick

COMPONENTS = {
    "real": [
        "aspire.Aspire (fit, init_sampler, sample_posterior, enable_pool, resume_from_file)",
        "ImportanceSampler", "MCMCSampler.draw_initial_samples / log_prob", "MiniPCN", "Emcee",
        "SMCSampler / MiniPCNSMC / EmceeSMC (loop, mutate, checkpoint build/restore)",
        "BlackJAXSMC (log_prob, _jax_log_prob, mutate: random-walk branch; in C05 C08 C10 C18 C20)",
        "Samples / SMCSamples (slicing, concatenate, resample, to_standard_samples)", "SMCHistory",
        "CompositeTransform / FlowTransform", "h5py / pickle",
    ],
    "stub": ["minipcn.Sampler", "emcee.EnsembleSampler", "orng.ArrayRNG", "SimFlow proposal", "analytic likelihood / prior", "FakePool",
             "blackjax.rmh (jax random-walk stand-in) with a jax-traceable twin of the analytic model and proposal"],
    "not_run": ["real blackjax (BlackJAXSMC nuts / hmc branches)", "real minipcn/orng/emcee", "zuko/flowjax (see C03/C15/C20)"],
}


def draw_any(seed, tier, samplers=("smc", "smc", "smc", "importance", "minipcn", "emcee_smc", "emcee"), **kw):
    rng = rng_from(seed)
    sampler = pick(rng, list(samplers))
    quick = tier == "quick"
    base = dict(
        xps=("numpy", "numpy", "torch", "jax"),
        dtypes=(None, None, "float64", "float32"),
        particles=(12, 40) if quick else (12, 96),
        kernel_steps=(1, 2) if quick else (1, 3),
        checkpoint_modes=("none", "path", "callback", "auto"),
        int_bounds_prob=0.15,
    )
    base.update(kw)
    scn = draw_smc_scenario(int(rng.integers(1 << 62)), **base)
    scn["sampler"] = sampler
    if sampler == "importance":
        scn["sample_kwargs"] = {}
        scn["preconditioning"] = pick(rng, [None, "none"])
        scn["preconditioning_kwargs"] = None
        scn["checkpoint"] = {"mode": "none", "every": 1}
        scn["n_samples"] = int(rng.integers(20, 200))
    elif sampler == "minipcn":
        scn["sample_kwargs"] = {"n_steps": int(rng.integers(2, 7)), "burnin": int(rng.integers(0, 2)),
                                "thin": int(rng.integers(1, 3)), "last_step_only": bool(rng.integers(2))}
        scn["checkpoint"] = {"mode": "none", "every": 1}
    elif sampler == "emcee":
        scn["sample_kwargs"] = {"nsteps": int(rng.integers(2, 6)), "discard": int(rng.integers(0, 2))}
        scn["checkpoint"] = {"mode": "none", "every": 1}
        scn["rng_route"] = "none"
    elif sampler == "emcee_smc":
        sk = scn["sample_kwargs"]
        for k in ("min_step", "max_n_steps"):
            sk.pop(k, None)
        sk["sampler_kwargs"] = {"nsteps": int(rng.integers(1, 3)), "progress": False}
        scn["rng_route"] = "none"
    # observation (DESIGN 7, no listed property): with a jax namespace and preconditioning="none" the samplers that
    # drive a numpy kernel (minipcn MCMC, emcee, emcee_smc) raise inside IdentityTransform (device="cpu" string handed
    # to jax.numpy.zeros); those cells are not generated
    if scn["xp"] == "jax" and sampler in ("minipcn", "emcee", "emcee_smc") and scn["preconditioning"] == "none":
        scn["preconditioning"] = "default"
        scn["_precond"] = "default"
    return scn
