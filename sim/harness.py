"""Check harness: seeded case generation, parallel execution, known-findings,
minimisation, replay files, evidence files, exit codes.

Exit codes: 0 property held on everything explored; 1 VIOLATION; 2 replay
mismatch / harness exception; 3 nothing (or too little) was verified.
"""

from __future__ import annotations

import faulthandler
import json
import multiprocessing as mp
import os
import shutil
import sys
import tempfile
import time
import traceback
from concurrent.futures import ProcessPoolExecutor, as_completed
from concurrent.futures.process import BrokenProcessPool

from . import ROOT
from .core import digest_of, jsonable

# VERIF_EVIDENCE_DIR: only tools/mutant.py sets it, so that runs against a deliberately broken tree do not overwrite the evidence
EVIDENCE_DIR = os.environ.get("VERIF_EVIDENCE_DIR") or os.path.join(ROOT, "evidence")
REPLAY_DIR = os.path.join(ROOT, "replays")
KNOWN_FINDINGS = os.path.join(ROOT, "known_findings.json")
SCHEMA = "/root/.vp/EVIDENCE.schema.json"

CASE_WALL_CAP = int(os.environ.get("VERIF_CASE_CAP", "600"))


def n_workers():
    return max(1, int(os.environ.get("VERIF_WORKERS", min(16, os.cpu_count() or 1))))


def shm_dir():
    base = "/dev/shm" if os.path.isdir("/dev/shm") and os.access("/dev/shm", os.W_OK) else None
    return tempfile.mkdtemp(prefix="aspire-sim-", dir=base)


# ----------------------------------------------------------------------------
# violations
# ----------------------------------------------------------------------------
def violation(oracle: str, message: str, where: dict | None = None, **detail) -> dict:
    return {
        "oracle": oracle,
        "message": message,
        "where": jsonable(where or {}),
        "detail": jsonable(detail),
    }


def load_known_findings():
    if not os.path.exists(KNOWN_FINDINGS):
        return []
    with open(KNOWN_FINDINGS) as f:
        return json.load(f).get("findings", [])


def _match_value(want, got):
    if isinstance(want, list):
        return got in want
    return want == got


def match_known(prop: str, v: dict, findings=None):
    for e in findings if findings is not None else load_known_findings():
        if e.get("status") != "known" or e.get("property") != prop:
            continue
        m = e.get("match", {})
        if m.get("oracle") != v["oracle"]:
            continue
        where = m.get("where", {})
        if all(_match_value(want, v["where"].get(k)) for k, want in where.items()):
            return e
    return None


# ----------------------------------------------------------------------------
# worker side
# ----------------------------------------------------------------------------
def _run_one(args):
    modname, case = args
    import importlib

    faulthandler.dump_traceback_later(CASE_WALL_CAP, exit=True)
    try:
        if mp.current_process().name != "MainProcess" or os.environ.get("VERIF_PIN_MAIN"):
            from . import pin_to_one_cpu

            pin_to_one_cpu()
        mod = importlib.import_module(modname)
        workdir = shm_dir()
        cov = _reach_start()
        try:
            out = mod.run_case(case, workdir)
        finally:
            _reach_stop(cov)
            shutil.rmtree(workdir, ignore_errors=True)
        out.setdefault("violations", [])
        out["case"] = case
        return out
    except BaseException as e:  # harness bug: never a verdict
        return {
            "case": case,
            "harness_error": f"{type(e).__name__}: {e}",
            "tb": traceback.format_exc(),
            "violations": [],
        }
    finally:
        faulthandler.cancel_dump_traceback_later()


def _reach_start():
    """Reach measurement (tools/reach.py): with VERIF_COVERAGE_DIR set, record which lines of aspire a case executes.
    Off by default; it only observes (no seam, no verdict depends on it)."""
    d = os.environ.get("VERIF_COVERAGE_DIR")
    if not d:
        return None
    import coverage

    import aspire

    cov = coverage.Coverage(data_file=os.path.join(d, "cov"), data_suffix=True, include=[os.path.dirname(aspire.__file__) + "/*"],
                            config_file=False)
    cov.start()
    return cov


def _reach_stop(cov):
    if cov is not None:
        cov.stop()
        cov.save()


def run_forked(modname: str, case: dict) -> dict:
    """Run ONE case in a short-lived forked worker (the check's parent process never imports torch / jax and never runs a
    case itself, so minimisation cannot exhaust its JIT code memory)."""
    ctx = mp.get_context("fork")
    with ProcessPoolExecutor(max_workers=1, mp_context=ctx) as ex:
        return ex.submit(_run_one, (modname, case)).result()


def run_cases(modname: str, cases: list, workers: int | None = None, budget_s: float | None = None):
    """Run cases in forked workers; results in case order.  Returns
    (outcomes, n_skipped_for_budget)."""
    workers = workers or n_workers()
    t0 = time.time()
    outcomes: dict[int, dict] = {}
    skipped = 0
    if workers == 1 or len(cases) <= 1:
        for i, c in enumerate(cases):
            if budget_s is not None and time.time() - t0 > budget_s:
                skipped += 1
                continue
            outcomes[i] = _run_one((modname, c))
        return [outcomes[i] for i in sorted(outcomes)], skipped
    ctx = mp.get_context("fork")
    # Workers are recycled every GENERATION cases: a long-lived process that JIT-compiles thousands of XLA programs runs
    # into vm.max_map_count ("LLVM ERROR: Unable to allocate section memory"); fresh forks are cheap (the parent never
    # imports torch / jax).
    generation = int(os.environ.get("VERIF_GENERATION", str(workers * 12)))
    it = iter(enumerate(cases))
    exhausted = False
    while not exhausted:
        batch = []
        for _ in range(generation):
            try:
                batch.append(next(it))
            except StopIteration:
                exhausted = True
                break
        if not batch:
            break
        if budget_s is not None and time.time() - t0 > budget_s:
            skipped += len(batch) + sum(1 for _ in it)
            break
        with ProcessPoolExecutor(max_workers=workers, mp_context=ctx) as ex:
            futs = {}
            pending = set()
            bit = iter(batch)

            def _submit_some(n):
                nonlocal skipped
                for _ in range(n):
                    try:
                        i, c = next(bit)
                    except StopIteration:
                        return False
                    if budget_s is not None and time.time() - t0 > budget_s:
                        skipped += 1 + sum(1 for _ in bit)
                        return False
                    f = ex.submit(_run_one, (modname, c))
                    futs[f] = i
                    pending.add(f)
                return True

            more = _submit_some(workers * 2)
            while pending:
                done = next(as_completed(pending))
                pending.discard(done)
                i = futs.pop(done)
                outcomes[i] = done.result()
                if more:
                    more = _submit_some(1)
    return [outcomes[i] for i in sorted(outcomes)], skipped


# ----------------------------------------------------------------------------
# evidence validation (jsonschema when importable, else the essentials)
# ----------------------------------------------------------------------------
def validate_evidence(ev: dict):
    try:
        import jsonschema

        with open(SCHEMA) as f:
            schema = json.load(f)
        jsonschema.validate(ev, schema)
        return
    except ImportError:
        pass
    except FileNotFoundError:
        pass
    for k in ("property_id", "tier", "seed", "level", "coverage", "wall_s"):
        assert k in ev, f"evidence lacks {k}"
    assert ev["tier"] in ("quick", "thorough")
    assert isinstance(ev["seed"], int)
    cov = ev["coverage"]
    if ev["level"] in ("exploration", "fault_enumeration"):
        assert isinstance(cov.get("evaluations"), int) and cov["evaluations"] >= 1
        assert isinstance(cov.get("distinct_nontrivial"), int) and cov["distinct_nontrivial"] >= 2
        assert isinstance(cov.get("rule"), str)
        assert isinstance(cov.get("samples"), list) and len(cov["samples"]) >= 1


# ----------------------------------------------------------------------------
# generic greedy minimiser
# ----------------------------------------------------------------------------
def minimise(mod, case: dict, v: dict, max_attempts: int = 60, wall_s: float = 45.0):
    """Greedy: try each candidate simplification; keep it when the same
    (oracle) violation class persists."""
    if not hasattr(mod, "shrink_candidates"):
        return case, 0
    t0 = time.time()
    attempts = 0
    improved = True
    while improved and attempts < max_attempts and time.time() - t0 < wall_s:
        improved = False
        for cand in mod.shrink_candidates(case):
            if attempts >= max_attempts or time.time() - t0 > wall_s:
                break
            attempts += 1
            out = run_forked(mod.__name__, cand)
            if out.get("harness_error"):
                continue
            if any(x["oracle"] == v["oracle"] for x in out["violations"]):
                case = cand
                improved = True
                break
    return case, attempts


# ----------------------------------------------------------------------------
# the check driver
# ----------------------------------------------------------------------------
def run_check(mod, tier: str, seed: int) -> int:
    """Generate, run, judge, write evidence; return the exit code."""
    t0 = time.time()
    prop = mod.ID
    os.makedirs(EVIDENCE_DIR, exist_ok=True)
    os.makedirs(REPLAY_DIR, exist_ok=True)
    print(f"VERIF_SEED={seed} property={prop} tier={tier} workers={n_workers()}", flush=True)
    cases = mod.gen_cases(seed, tier)
    budget = getattr(mod, "BUDGET_S", {}).get(tier)
    if os.environ.get("VERIF_BUDGET_S"):
        budget = float(os.environ["VERIF_BUDGET_S"])
    try:
        outcomes, skipped = run_cases(mod.__name__, cases, budget_s=budget)
    except BrokenProcessPool:
        print(f"HARNESS-ERROR property={prop} a worker died or exceeded the per-case wall cap", flush=True)
        return 3

    # A harness exception is never a verdict.  Before giving up (exit 2) the case is run once more, alone, in a fresh
    # forked interpreter: only an exception that REPEATS there stops the check; a first-attempt-only one is reported and
    # counted (evidence: harness_retries) and the second outcome is the case's outcome.
    retried = 0
    for j, o in enumerate(outcomes):
        if o.get("harness_error"):
            o2 = run_forked(mod.__name__, o["case"])
            retried += 1
            if not o2.get("harness_error"):
                print(f"HARNESS-RETRY property={prop} case={o['case'].get('run_index')} first attempt raised {o['harness_error']}; "
                      f"clean when run again alone", flush=True)
                outcomes[j] = o2
    harness_errors = [o for o in outcomes if o.get("harness_error")]
    for o in harness_errors[:5]:
        print(f"HARNESS-ERROR property={prop} {o['harness_error']}\n{o.get('tb', '')}", flush=True)
    if harness_errors:
        return 2

    findings = load_known_findings()
    new_violations = []  # (outcome, violation)
    known_hits: dict[str, int] = {}
    for o in outcomes:
        for v in o["violations"]:
            e = match_known(prop, v, findings)
            if e is not None:
                known_hits[e["id"]] = known_hits.get(e["id"], 0) + 1
            else:
                new_violations.append((o, v))
    for e in findings:
        if e["id"] in known_hits:
            print(f"KNOWN-FINDING: property={prop} {e['what']} [{e['id']}; hit {known_hits[e['id']]}x]", flush=True)

    replay_paths = []
    reported = set()
    for o, v in new_violations:
        key = v["oracle"]
        if key in reported and len(reported) >= 1:
            continue  # one replay file per oracle class
        reported.add(key)
        case = o.get("replay_case") or o["case"]
        try:
            case_min, attempts = minimise(mod, case, v)
        except Exception:
            case_min, attempts = case, -1
        out_min = run_forked(mod.__name__, case_min)
        vmin = next((x for x in out_min.get("violations", []) if x["oracle"] == v["oracle"]), v)
        rp = os.path.join(REPLAY_DIR, f"{prop}-{seed}-{case.get('run_index', 0)}-{v['oracle'].replace('.', '_')}.json")
        with open(rp, "w") as f:
            json.dump(
                {
                    "property": prop,
                    "module": mod.__name__,
                    "oracle": v["oracle"],
                    "verif_seed": seed,
                    "tier": tier,
                    "case": case_min,
                    "original_case": case,
                    "minimise_attempts": attempts,
                    "message": vmin["message"],
                    "where": vmin["where"],
                    "detail": vmin["detail"],
                    "digest": out_min.get("digest"),
                },
                f,
                indent=1,
                default=str,
            )
        replay_paths.append(rp)
        print(f"VIOLATION property={prop} replay={rp}", flush=True)
        print(f"  oracle={v['oracle']} :: {vmin['message']}", flush=True)

    # ---------------- evidence ----------------
    wall = time.time() - t0
    agg = mod.aggregate(outcomes) if hasattr(mod, "aggregate") else {}
    n_eval = sum(int(o.get("evaluations", 1)) for o in outcomes)
    nontrivial = set()
    for o in outcomes:
        for k in o.get("nontrivial_keys", []):
            nontrivial.add(json.dumps(k, sort_keys=True, default=str))
    digests = {o.get("digest") for o in outcomes if o.get("digest")}
    aborted = [o for o in outcomes if o.get("aborted")]
    faults: dict[str, int] = {}
    probes: dict[str, int] = {}
    events = 0
    iterations = 0
    for o in outcomes:
        for k, n in (o.get("faults_fired") or {}).items():
            faults[k] = faults.get(k, 0) + int(n)
        for k, n in (o.get("probes") or {}).items():
            probes[k] = probes.get(k, 0) + int(n)
        events += int(o.get("events", 0))
        iterations += int(o.get("iterations", 0))
    samples = [o["sample"] for o in outcomes if o.get("sample") is not None][:3]
    if not samples and outcomes:
        samples = [jsonable(outcomes[0]["case"])]
    cov = {
        "evaluations": int(n_eval),
        "distinct_nontrivial": int(len(nontrivial)),
        "rule": mod.RULE,
        "samples": samples,
        "cases": len(outcomes),
        "cases_skipped_for_budget": int(skipped),
        "distinct_digests": len(digests),
        "aborted_cases": len(aborted),
        "aborted_examples": [jsonable(o.get("aborted")) for o in aborted[:5]],
        "faults_fired": faults,
        "rare_branch_probes": probes,
        "seam_events_simulated": events,
        "smc_iterations_simulated": iterations,
        "simulated_time_note": "aspire has no clock; simulated time is counted in seam events and SMC iterations",
        "runs_per_hour": round(n_eval / wall * 3600.0, 1) if wall > 0 else None,
        "known_findings_hit": known_hits,
        "harness_retries": retried,
        "components": getattr(mod, "COMPONENTS", {}),
        "exhaustive": bool(agg.pop("exhaustive", False)),
    }
    cov.update(agg)
    ev = {
        "property_id": prop,
        "tier": tier,
        "seed": int(seed),
        "level": mod.LEVEL,
        "coverage": jsonable(cov),
        "assumptions": getattr(mod, "ASSUMPTIONS", []),
        "wall_s": round(wall, 2),
        "violations": len(new_violations),
    }
    try:
        validate_evidence(ev)
    except Exception as e:
        print(f"HARNESS-ERROR property={prop} evidence does not validate: {e}", flush=True)
        with open(os.path.join(EVIDENCE_DIR, f"{prop}.json"), "w") as f:
            json.dump(ev, f, indent=1)
        return 3 if not new_violations else 1
    with open(os.path.join(EVIDENCE_DIR, f"{prop}.json"), "w") as f:
        json.dump(ev, f, indent=1)

    print(
        f"property={prop} cases={len(outcomes)} evaluations={n_eval} distinct_nontrivial={len(nontrivial)} "
        f"aborted={len(aborted)} violations={len(new_violations)} known={sum(known_hits.values())} wall={wall:.1f}s",
        flush=True,
    )
    if new_violations:
        return 1
    max_abort = getattr(mod, "MAX_ABORT_FRACTION", 0.25)
    if outcomes and len(aborted) / len(outcomes) > max_abort:
        print(f"HARNESS-ERROR property={prop} {len(aborted)}/{len(outcomes)} cases aborted: nothing verified", flush=True)
        return 3
    if len(nontrivial) < 2:
        print(f"HARNESS-ERROR property={prop} fewer than 2 non-trivial cases", flush=True)
        return 3
    return 0


def replay(path: str) -> int:
    import importlib

    with open(path) as f:
        rp = json.load(f)
    mod = importlib.import_module(rp["module"])
    out = _run_one((mod.__name__, rp["case"]))
    if out.get("harness_error"):
        print(f"HARNESS-ERROR replay raised: {out['harness_error']}\n{out.get('tb')}")
        return 2
    same = [v for v in out["violations"] if v["oracle"] == rp["oracle"]]
    if not same:
        print(f"REPLAY-MISMATCH property={rp['property']} oracle={rp['oracle']} did not reproduce (violations now: {[v['oracle'] for v in out['violations']]})")
        return 2
    if rp.get("digest") and out.get("digest") != rp["digest"]:
        print(f"REPLAY-MISMATCH property={rp['property']} digest differs: {out.get('digest')} != {rp['digest']}")
        return 2
    print(f"VIOLATION property={rp['property']} replay={path}")
    print(f"  reproduced oracle={rp['oracle']} :: {same[0]['message']} digest={out.get('digest')}")
    return 1
