"""Crash enumeration + restart driver shared by C11, C12, C18 (and the
crash/resume parts of C08, C10, C17).

scenario -> fault-free reference run -> a crash at every likelihood / prior
call -> durable state only -> restart through each resume route -> verdicts.
"""

from __future__ import annotations

import os
import pickle
import shutil

import numpy as np

from . import model as M
from . import oracles as O
from .core import HarnessError, SimInterrupt, SimModelError, digest_of, jsonable, to_np
from .harness import violation
from .runner import payload_digest, read_file_checkpoint, run_process

ROUTES = ("bytes", "dict", "path", "resume_from_file", "resume_from_file_kwargs")

C11_GROUPS = {
    "schedule": lambda k: k == "h.beta",
    "samples": lambda k: k in ("x", "log_likelihood", "log_prior", "log_q", "log_w", "weights"),
    "evidence": lambda k: k in ("log_evidence", "log_evidence_error"),
    "history_series": lambda k: k.startswith("h.") and not k.startswith("h.pop") and k not in ("h.beta", "h.n_pop"),
    "history_populations": lambda k: k.startswith("h.pop") or k == "h.n_pop",
}


def phase_class(phase: str) -> str:
    return phase.split("(")[0]


def diff_summaries(ref: dict, got: dict):
    """Keys whose values are not bit-identical."""
    keys = sorted(set(ref) | set(got))
    return [k for k in keys if digest_of(ref.get(k, "<absent>")) != digest_of(got.get(k, "<absent>"))]


def close_summaries(ref: dict, got: dict, rtol=1e-5, atol=1e-6):
    """Keys whose values differ beyond a float tolerance (shapes / lengths must match exactly)."""
    bad = []
    for k in sorted(set(ref) | set(got)):
        a, b = ref.get(k, "<absent>"), got.get(k, "<absent>")
        if digest_of(a) == digest_of(b):
            continue
        try:
            if isinstance(a, dict) and isinstance(b, dict):
                ok = set(a) == set(b) and all(
                    (a[q] is None and b[q] is None) or np.allclose(np.asarray(a[q], dtype=float), np.asarray(b[q], dtype=float), rtol=rtol, atol=atol, equal_nan=True)
                    for q in a if not (a[q] is None) or not (b[q] is None))
            else:
                aa, bb = np.asarray(a, dtype=float), np.asarray(b, dtype=float)
                ok = aa.shape == bb.shape and np.allclose(aa, bb, rtol=rtol, atol=atol, equal_nan=True)
        except Exception:
            ok = False
        if not ok:
            bad.append(k)
    return bad


def _events_prefix(trace, upto_kind="crash"):
    ev = []
    for _, k, kw in trace.events:
        if k in ("crash", "end"):
            break
        ev.append((k, kw))
    return ev


def explore(
    scn: dict,
    workdir: str,
    *,
    routes=ROUTES,
    seams=("like", "prior"),
    max_crash_points: int | None = None,
    max_states: int | None = None,
    double_crash: int = 0,
    want=("c11", "c12", "c18", "c10", "c17", "c08"),
    rng: np.random.Generator | None = None,
    pre_run: dict | None = None,
    second_crash: int = 0,
    resume_scn: dict | None = None,
) -> dict:
    out = {
        "violations": [],
        "aborted": None,
        "faults_fired": {},
        "probes": {},
        "phases": {},
        "evaluations": 0,
        "events": 0,
        "iterations": 0,
        "nontrivial_keys": [],
        "states": 0,
        "resumes": 0,
        "crash_points": 0,
        "ref": None,
    }
    V = out["violations"]
    where = O.scn_where(scn)
    ck = scn["checkpoint"]
    file_mode = ck["mode"] in ("path", "auto")

    def fired(kind, n=1):
        out["faults_fired"][kind] = out["faults_fired"].get(kind, 0) + n

    def probe(name, n=1):
        out["probes"][name] = out["probes"].get(name, 0) + n

    # ---------------- optional earlier run into the same file ----------------
    base_file = os.path.join(workdir, "base.h5")
    pre_final = None
    if pre_run is not None:
        r0 = run_process(pre_run, workdir, fresh_file=True, proc_no=7)
        out["evaluations"] += 1
        if r0.status != "ok":
            out["aborted"] = {"why": "pre-run failed", "error": r0.error}
            return out
        pre_final = read_file_checkpoint(r0.file)
        shutil.copy(r0.file, base_file)
        fired("payload_resize_setup")

    def reset_file():
        f = os.path.join(workdir, "run.h5")
        if os.path.exists(f):
            os.remove(f)
        if pre_run is not None:
            shutil.copy(base_file, f)

    # ---------------- reference ----------------
    reset_file()
    ref = run_process(scn, workdir, audit_file=file_mode, initial_file_payload=pre_final)
    final_file = os.path.join(workdir, "state_final.h5")
    if file_mode and os.path.exists(os.path.join(workdir, "run.h5")):
        shutil.copy(os.path.join(workdir, "run.h5"), final_file)
    out["evaluations"] += 1
    out["events"] += len(ref.trace.events)
    if ref.status != "ok":
        out["aborted"] = {"why": "reference run did not finish", "status": ref.status, "error": ref.error,
                          "tb": (ref.tb or "")[-1500:]}
        return out
    h = ref.history
    n_iter = len(h.beta)
    out["iterations"] += n_iter
    ref_sum = ref.summary()
    ref_events = [(k, kw) for _, k, kw in ref.trace.events]
    out["ref"] = {
        "n_iter": n_iter,
        "beta": ref_sum.get("h.beta"),
        "n_like_calls": ref.model.n_like_calls,
        "n_prior_calls": ref.model.n_prior_calls,
        "checkpoints": [(it, b, len(blob)) for it, b, blob in ref.payloads],
        "digest": digest_of(ref_sum),
    }
    # reference-level verdicts (no relaxation of any kind)
    if "c18" in want:
        V += O.check_history(ref, scn, resumed=False, props=("c18",))
    if "c08" in want:
        V += O.check_history(ref, scn, resumed=False, props=("c08",))
    if "c10" in want:
        V += O.check_coherence(ref, scn)[0]
    if "c17" in want:
        V += O.check_model_seam(ref, scn)
    if "c12" in want and ck["mode"] != "none":
        its = [it for it, _, _ in ref.payloads]
        want_its = M.expected_checkpoint_iterations(n_iter, ck.get("every"))
        if its != want_its:
            V.append(
                violation(
                    "c12.cadence",
                    f"checkpoints were written at iterations {its} but cadence {ck.get('every')} over {n_iter} "
                    f"iterations dictates {want_its}",
                    {**where, "every": ck.get("every")}, got=its, want=want_its,
                )
            )
        if file_mode:
            for f in ref.file_audit_failures[:2]:
                V.append(
                    violation(
                        "c12.file_not_current",
                        f"fault-free run: at {f['at']} the file holds {f['file_len']} checkpoint bytes but the last "
                        f"acknowledged payload has {f['ack_len']}" + (" (stale suffix)" if f.get("stale_suffix") else ""),
                        where, **f,
                    )
                )
            fb = read_file_checkpoint(ref.file)
            if ref.payloads and (fb != ref.payloads[-1][2] or fb != ref.last_checkpoint_bytes):
                V.append(violation("c12.final_file", "after the run the file's checkpoint is not the final payload", where))
            elif ref.last_checkpoint_bytes is not None and fb != ref.last_checkpoint_bytes:
                # independent of the storage seam (which only sees a write when the file's content changes): what the sampler
                # acknowledged last is what the file must hold, byte for byte
                same_len = fb is not None and len(fb) == len(ref.last_checkpoint_bytes)
                V.append(violation("c12.final_file", "after the run the file's checkpoint is not the payload the sampler acknowledged last"
                                   + (" (same length, older content)" if same_len else ""), {**where, "same_length": bool(same_len)}))
            sizes = [len(b) for _, _, b in ref.payloads]
            if any(b < a for a, b in zip(sizes, sizes[1:])):
                probe("payload_shrank")
            if any(b > a for a, b in zip(sizes, sizes[1:])):
                probe("payload_grew")
            if pre_final is not None and sizes and len(pre_final) > sizes[0]:
                probe("payload_shrank_vs_previous_run")

    if ck["mode"] == "none":
        return out

    # ---------------- crash enumeration ----------------
    # seq of each model call in the reference, and the payload acknowledged before it
    call_seq = {"like": [], "prior": []}
    ck_seq = []
    for s, k, kw in ref.trace.events:
        if k in ("like", "prior"):
            call_seq[k].append((s, kw["phase"]))
        elif k == "ckpt":
            ck_seq.append(s)
    points = [(seam, k) for seam in seams for k in range(len(call_seq[seam]))]
    points.sort(key=lambda p: call_seq[p[0]][p[1]][0])
    if max_crash_points is not None and len(points) > max_crash_points:
        rng = rng or np.random.default_rng(0)
        keep = sorted(rng.choice(len(points), size=max_crash_points, replace=False).tolist())
        points = [points[i] for i in keep]
    else:
        out["crash_points_exhaustive"] = True

    states: dict[str, dict] = {}
    deep_done: set = set()
    run_file = os.path.join(workdir, "run.h5")
    for n, (seam, k) in enumerate(points):
        kind = "interrupt" if n % 2 == 0 else "model_error"
        reset_file()
        c = run_process(scn, workdir, crash=(seam, k, kind), initial_file_payload=pre_final)
        out["evaluations"] += 1
        out["crash_points"] += 1
        out["events"] += len(c.trace.events)
        if c.status != "crashed":
            raise HarnessError(f"crash {seam}@{k} did not fire: status={c.status} error={c.error}")
        # built-in determinism check: the dying run is the reference's prefix
        pre = _events_prefix(c.trace)
        if digest_of(pre) != digest_of(ref_events[: len(pre)]):
            raise HarnessError(f"crashed run {seam}@{k} is not a prefix of the reference run (nondeterminism)")
        seq, phase = call_seq[seam][k]
        pc = phase_class(phase)
        fired(f"crash_{seam}:{kind}")
        out["phases"][pc] = out["phases"].get(pc, 0) + 1
        n_ck_before = sum(1 for s in ck_seq if s < seq)
        expected = ref.payloads[n_ck_before - 1][2] if n_ck_before > 0 else None
        exp_sem = payload_digest(expected)
        if ck["mode"] == "callback":
            durable = c.payloads[-1][2] if c.payloads else None
            if payload_digest(durable) != exp_sem:
                # Either the simulation is not deterministic (harness error), or the dying process handed the callback MORE
                # than the reference had delivered by this call -- a checkpoint written while the exception propagates.  The
                # latter is the system's behaviour: that last payload is what the caller holds, so it is what gets resumed.
                same_prefix = ([payload_digest(b) for _, _, b in c.payloads[:n_ck_before]]
                               == [payload_digest(b) for _, _, b in ref.payloads[:n_ck_before]])
                if len(c.payloads) > n_ck_before and same_prefix:
                    probe("checkpoint_delivered_while_dying")
                else:
                    raise HarnessError("callback payload prefix differs from the reference")
        else:
            durable = read_file_checkpoint(run_file)
            if n_ck_before == 0 and pre_final is not None and durable == pre_final:
                # before this run's first checkpoint the file may still hold, byte for byte, the final payload of the
                # earlier run (a fresh run may also clear it): both are "current"; a torn or partial one is not
                probe("previous_run_payload_still_intact")
                durable = None
            if "c12" in want:
                w12 = {**where, "phase": pc, "seam": seam, "every": ck.get("every")}
                ack = c.last_checkpoint_bytes
                stale_suffix = (
                    durable is not None and ack is not None and len(durable) > len(ack)
                    and durable[: len(ack)] == ack
                )
                if durable != ack:
                    # byte-for-byte against what the dying process itself acknowledged
                    what = ("no checkpoint" if durable is None else f"{len(durable)} bytes") + (
                        " but the most recent acknowledged payload "
                    ) + ("does not exist" if ack is None else f"has {len(ack)} bytes")
                    V.append(
                        violation(
                            "c12.stale_suffix" if stale_suffix else "c12.file_not_current",
                            f"after a crash at {seam} call {k} ({phase}) the file holds {what}"
                            + (" (current payload followed by a stale suffix)" if stale_suffix else ""),
                            w12, k=k,
                        )
                    )
                elif payload_digest(durable) != exp_sem:
                    # ... and it is the checkpoint the reference acknowledged before this call
                    V.append(
                        violation(
                            "c12.file_not_current",
                            f"after a crash at {seam} call {k} ({phase}) the file's checkpoint is not the one "
                            f"acknowledged before that call in the uninterrupted run",
                            w12, k=k,
                        )
                    )
                # config + flow present and loadable through the documented route (the full route -- rebuild, then a bare
                # sample_posterior() -- once per distinct durable state of this scenario)
                dkey = payload_digest(durable)
                deep = durable is not None and dkey not in deep_done
                if deep:
                    deep_done.add(dkey)
                    fired("documented_route_continuation")
                err = _loadable(run_file, scn, deep=deep)
                if err is not None:
                    V.append(
                        violation(
                            "c12.stale_proposal" if err.startswith("STALE-PROPOSAL") else "c12.not_loadable",
                            f"after a crash at {seam} call {k} ({phase}) the file cannot be resumed from: {err}",
                            w12, k=k,
                        )
                    )
        if durable is None:
            probe("crash_before_first_checkpoint")
            continue
        key = payload_digest(durable)
        # a caller who survives the exception (no process death) may still hold the dictionary itself: the one the
        # callback received, or sampler.last_checkpoint_state -- a different object from its pickled snapshot
        live = None
        if ck["mode"] == "callback" and c.live_states:
            live = c.live_states[-1]
        elif file_mode and c.sampler is not None and c.sampler.last_checkpoint_state is not None and n_ck_before > 0:
            live = c.sampler.last_checkpoint_state
        if key in states and live is not None:
            states[key]["live"] = live  # keep the one from the LATEST crash point: the dying run had most time to touch it
        if key not in states:
            st = {"payload": durable, "n": 0, "first": (seam, k, phase), "file": None, "live": live}
            if file_mode:
                st["file"] = os.path.join(workdir, f"state_{len(states)}.h5")
                shutil.copy(run_file, st["file"])
            states[key] = st
        states[key]["n"] += 1

    # The process may also die AFTER the run's last checkpoint was delivered (while the caller writes its results, say): no
    # model call follows that checkpoint, so no crash point above leaves it behind -- it is added as one more durable state.
    if ref.payloads and ("c11" in want or "c18" in want or "c08" in want or "c10" in want):
        fin = ref.payloads[-1][2]
        fkey = payload_digest(fin)
        if fkey not in states:
            live = None
            if ck["mode"] == "callback" and ref.live_states:
                live = ref.live_states[-1]
            elif file_mode and ref.sampler is not None:
                live = ref.sampler.last_checkpoint_state
            st = {"payload": fin, "n": 1, "first": ("after_run", -1, "after_final"), "file": None, "live": live, "final": True}
            if file_mode and os.path.exists(final_file):
                st["file"] = final_file
            if st["file"] is not None or not file_mode:
                states[fkey] = st
                fired("death_after_the_final_checkpoint")
    out["states"] = len(states)
    # ---------------- restarts ----------------
    st_list = list(states.values())
    if max_states is not None and len(st_list) > max_states:
        rng = rng or np.random.default_rng(0)
        keep = sorted(rng.choice(len(st_list), size=max_states, replace=False).tolist())
        fin_states = [x for x in st_list if x.get("final")]
        st_list = [st_list[i] for i in keep]
        for x in fin_states:
            if not any(y is x for y in st_list):
                st_list.append(x)
    use_routes = [r for r in routes if file_mode or r in ("bytes", "dict")]
    if "dict" in use_routes:
        use_routes = use_routes + ["dict_live"]
    if "bytes" in use_routes and len(routes) > 2:
        use_routes = use_routes + ["pkl"]  # the same bytes in a .pkl file, named by its path (the non-HDF5 branch of the file route)
    for si, st in enumerate(st_list):
        ck_state = pickle.loads(st["payload"])
        it0 = ck_state.get("iteration")
        b0 = (ck_state.get("meta") or {}).get("beta")
        if b0 is not None and float(b0) >= 1.0:
            probe("resumed_at_beta_1")
        for route in use_routes:
            if route == "dict_live" and st.get("live") is None:
                continue
            if st["file"] is not None:
                shutil.copy(st["file"], run_file)
            source = st["live"] if route == "dict_live" else st["payload"]
            again = False
            if route == "dict_live" and si % 2 == 1:
                # The caller's dictionary stays "the last checkpoint written" when a continuation started from it dies before
                # delivering its next checkpoint: interrupt a first continuation early, then resume AGAIN -- from the newest
                # dictionary the caller holds (the same object, unless the dying continuation delivered a newer one).
                m = int(si // 2) % 3
                c1 = run_process(resume_scn or scn, workdir, resume=(route, source), crash=("like", m, "model_error"), proc_no=20 + si)
                out["evaluations"] += 1
                out["events"] += len(c1.trace.events)
                if c1.status in ("crashed", "ok"):
                    # ("ok": the continuation had fewer likelihood calls than m and finished; its forced final checkpoint is
                    # then the newest dictionary)
                    again = True
                    fired("crash_in_continuation_from_live_dict" if c1.status == "crashed" else "finished_continuation_from_live_dict")
                    if ck["mode"] == "callback" and c1.live_states:
                        source = c1.live_states[-1]
                    elif file_mode and c1.payloads and c1.sampler is not None and c1.sampler.last_checkpoint_state is not None:
                        source = c1.sampler.last_checkpoint_state
                    else:
                        probe("same_live_dict_resumed_twice")
                    if st["file"] is not None and not c1.payloads:
                        shutil.copy(st["file"], run_file)
            r = run_process(resume_scn or scn, workdir, resume=(route, source), proc_no=1 + si)
            out["evaluations"] += 1
            out["resumes"] += 1
            out["events"] += len(r.trace.events)
            fired(f"restart:{route}" + ("_again" if again else ""))
            wr = {**where, "route": route, "resumed_iteration": it0}
            if again:
                wr["after_interrupted_continuation"] = True
            if r.status != "ok":
                if "c11" in want:
                    V.append(
                        violation(
                            "c11.resume_failed",
                            f"resume via {route} from the checkpoint of iteration {it0} did not complete: {r.error}",
                            wr, tb=(r.tb or "")[-1500:],
                        )
                    )
                continue
            out["iterations"] += len(r.history.beta) - (it0 or 0)
            out["nontrivial_keys"].append(
                [where["adaptive"], where["n_final_samples"] is not None, ck["mode"], ck.get("every"), route,
                 phase_class(st["first"][2]), scn["xp"], scn["preconditioning"], int(it0 or 0) == n_iter]
            )
            rs = r.summary()
            if "c11" in want:
                if route in ("resume_from_file", "resume_from_file_kwargs") and scn["flow"]["backend"] == "flowjax":
                    # deliberate, narrow relaxation: a FlowJax proposal reloaded from HDF5 evaluates the same function through
                    # slightly different float32/float64 promotions (its log_prob agrees to ~1e-7, not bit for bit), so a run
                    # resumed through resume_from_file is compared at 1e-5 instead of bit for bit.  Every other route, and the
                    # zuko / stub proposals through this route, stay bit-exact.
                    d = close_summaries(ref_sum, rs)
                    probe("flowjax_reload_compared_with_tolerance")
                else:
                    d = diff_summaries(ref_sum, rs)
                for g, pred in C11_GROUPS.items():
                    dk = [k for k in d if pred(k)]
                    if dk:
                        V.append(
                            violation(
                                f"c11.{g}",
                                f"resumed via {route} from iteration {it0} (first reachable by a crash at "
                                f"{st['first'][0]} call {st['first'][1]}, {st['first'][2]}): differs from the "
                                f"uninterrupted run in {dk[:6]}"
                                + (f" (n_pop {rs.get('h.n_pop')} vs {ref_sum.get('h.n_pop')})" if "h.n_pop" in dk else ""),
                                wr, keys=dk[:12],
                            )
                        )
                if len(r.history.beta) > n_iter:
                    V.append(violation("c11.liveness", f"resumed run needed {len(r.history.beta)} iterations, reference {n_iter}", wr))
            if "c18" in want:
                V += [_tag(v, route=route) for v in O.check_history(r, scn, resumed=True, props=("c18",))]
                # a resumed run continues the record it was handed: the populations the checkpoint already held must still be
                # there, unchanged, in the same places
                hh = ck_state.get("history")
                held = list(getattr(hh, "sample_history", []) or []) if route != "dict_live" else []
                got_pops = list(r.history.sample_history)
                for i_, q in enumerate(held):
                    a = np.asarray(to_np(q.x), dtype=np.float64)
                    b = np.asarray(to_np(got_pops[i_].x), dtype=np.float64) if i_ < len(got_pops) else None
                    if b is None or a.shape != b.shape or not np.array_equal(a, b, equal_nan=True):
                        V.append(violation(
                            "c18.rewritten_population",
                            f"resumed via {route} from iteration {it0}: stored population {i_}, which the checkpoint already held "
                            f"({a.shape[0]} particles), is {'missing' if b is None else f'different in the resumed record ({b.shape[0]} particles)'}",
                            wr, index=i_))
                        break
            if "c08" in want:
                V += [_tag(v, route=route) for v in O.check_history(r, scn, resumed=True, props=("c08",))]
            if "c10" in want:
                V += [_tag(v, route=route, resumed=True) for v in O.check_coherence(r, scn)[0]]
            if "c17" in want:
                V += [_tag(v, route=route, resumed=True) for v in O.check_model_seam(r, scn)]
    # ---------------- second crash inside the resumed run (file state between resume and the next checkpoint) ----------------
    if second_crash and file_mode and "c12" in want:
        for si, st in enumerate(st_list):
            if st.get("final"):
                continue
            for route in ("resume_from_file", "path", "resume_from_file_kwargs"):
                # the continuation may ask for another cadence (resume_kwargs / a new auto_checkpoint context do that)
                scn2 = scn
                it0 = pickle.loads(st["payload"]).get("iteration") or 0
                if rng is not None and rng.integers(2) == 0:
                    import copy as _copy

                    scn2 = _copy.deepcopy(scn)
                    scn2["checkpoint"]["every"] = int(rng.integers(1, 5))
                every2 = scn2["checkpoint"]["every"]
                shutil.copy(st["file"], run_file)
                rr = run_process(scn2, workdir, resume=(route, st["payload"]), proc_no=60, initial_file_payload=st["payload"])
                out["evaluations"] += 1
                if rr.status != "ok":
                    continue
                n_tot = len(rr.history.beta)
                its2 = [it for it, _, _ in rr.payloads]
                want2 = [i for i in range(it0 + 1, n_tot + 1) if i % every2 == 0] + [n_tot]
                if its2 != want2 and n_tot >= it0:
                    V.append(violation(
                        "c12.cadence",
                        f"a run resumed (via {route}) at iteration {it0} with cadence {every2} wrote checkpoints at iterations {its2}; the cadence dictates {want2}",
                        {**where, "every": every2, "resumed": True}, got=its2, want=want2))
                if rr.model.n_like_calls == 0:
                    continue
                scn_c = scn2
                like_seq = [s_ for s_, k_, kw_ in rr.trace.events if k_ == "like"]
                ck2 = [s_ for s_, k_, kw_ in rr.trace.events if k_ == "ckpt"]
                n_calls = min(len(like_seq), second_crash)
                for m in range(n_calls):
                    shutil.copy(st["file"], run_file)
                    c2 = run_process(scn_c, workdir, resume=(route, st["payload"]), crash=("like", m, "interrupt" if m % 2 else "model_error"),
                                     proc_no=60, initial_file_payload=st["payload"])
                    out["evaluations"] += 1
                    if c2.status != "crashed":
                        continue
                    fired("crash_in_resumed_run")
                    n_before = sum(1 for s_ in ck2 if s_ < like_seq[m])
                    expected2 = rr.payloads[n_before - 1][2] if n_before else st["payload"]
                    durable2 = read_file_checkpoint(run_file)
                    w12 = {**where, "route": route, "second_crash": True, "every": ck.get("every")}
                    if payload_digest(durable2) != payload_digest(expected2):
                        V.append(violation(
                            "c12.lost_after_resume",
                            f"run resumed via {route} and interrupted again at its likelihood call {m} (before its next checkpoint): the file holds "
                            f"{'no checkpoint' if durable2 is None else str(len(durable2)) + ' bytes'} instead of the checkpoint it was resumed from / last wrote",
                            w12, m=m))
                        break
                    err = _loadable(run_file, scn)
                    if err is not None:
                        V.append(violation("c12.stale_proposal" if err.startswith("STALE-PROPOSAL") else "c12.not_loadable", f"after a second crash (resumed via {route}, call {m}) the file cannot be resumed from: {err}", w12))
                        break
                    out["nontrivial_keys"].append([ck["mode"], ck.get("every"), "second_crash", route])
    # ---------------- double crash ----------------
    if double_crash and file_mode and st_list:
        rng = rng or np.random.default_rng(0)
        for _ in range(double_crash):
            st = st_list[int(rng.integers(len(st_list)))]
            shutil.copy(st["file"], run_file)
            probe_r = run_process(scn, workdir, resume=("path", st["payload"]), proc_no=40)
            out["evaluations"] += 1
            if probe_r.status != "ok" or probe_r.model.n_like_calls == 0:
                continue
            m = int(rng.integers(probe_r.model.n_like_calls))
            shutil.copy(st["file"], run_file)
            c2 = run_process(scn, workdir, resume=("path", st["payload"]), crash=("like", m, "interrupt"), proc_no=40)
            out["evaluations"] += 1
            if c2.status != "crashed":
                continue
            fired("crash_again")
            fb = read_file_checkpoint(run_file)
            r2 = run_process(scn, workdir, resume=("resume_from_file", fb), proc_no=41)
            out["evaluations"] += 1
            fired("restart:resume_from_file")
            if "c11" in want:
                wr = {**where, "route": "resume_from_file", "double_crash": True}
                if r2.status != "ok":
                    V.append(violation("c11.resume_failed", f"second resume did not complete: {r2.error}", wr, tb=(r2.tb or "")[-1500:]))
                else:
                    d = diff_summaries(ref_sum, r2.summary())
                    for g, pred in C11_GROUPS.items():
                        dk = [k for k in d if pred(k)]
                        if dk:
                            V.append(violation(f"c11.{g}", f"after two crashes and two resumes: differs from the uninterrupted run in {dk[:6]}", wr, keys=dk[:12]))
            if "c18" in want and r2.status == "ok":
                V += [_tag(v, route="resume_from_file", double_crash=True) for v in O.check_history(r2, scn, resumed=True, props=("c18",))]
    return out


def _tag(v, **kw):
    v = dict(v)
    v["where"] = {**v["where"], **jsonable(kw)}
    return v


def _loadable(path, scn, deep=False):
    """Try the documented resume route on a file; error string or None.

    ``deep``: also do what docs/checkpointing.rst shows next -- call ``sample_posterior()`` with no arguments on the rebuilt
    instance (on a scratch copy of the file) and require the continuation to run to its end."""
    from aspire import Aspire
    from aspire.utils import AspireFile

    from .core import entropy_seam
    from .env import Model, SimLikelihood, SimPrior, Target

    try:
        with AspireFile(path, "r") as f:
            if "aspire_config" not in f:
                return "no aspire_config in file"
            if "flow" not in f:
                return "no flow in file"
            has_ck = "checkpoint" in f and "state" in f["checkpoint"]
        m = Model(Target.from_dict(scn["target"]))
        A = Aspire.resume_from_file(path, log_likelihood=SimLikelihood(m), log_prior=SimPrior(m))
        if A.flow is None:
            return "flow not loaded"
        if has_ck:
            # "the proposal" the file must contain is the one the stored particles were weighted under (what a resumed run will
            # evaluate them with), not merely some proposal
            import pickle

            import numpy as np

            from .core import to_np

            with AspireFile(path, "r") as f:
                st = pickle.loads(f["checkpoint"]["state"][...].tobytes())
            smp = st.get("samples")
            if smp is not None and getattr(smp, "log_q", None) is not None and len(smp.x):
                lq = np.asarray(to_np(smp.log_q), dtype=np.float64)
                want = np.asarray(to_np(A.flow.log_prob(smp.x)), dtype=np.float64)
                fin = np.isfinite(lq) & np.isfinite(want)
                if lq.shape != want.shape or not np.allclose(lq[fin], want[fin], rtol=1e-3, atol=1e-3):
                    return ("STALE-PROPOSAL: the proposal stored in the file is not the one the stored checkpoint's particles were weighted "
                            f"under (max |log_q - file_flow.log_prob(x)| = {float(np.max(np.abs(lq[fin] - want[fin]))) if fin.any() and lq.shape == want.shape else None})")
    except Exception as e:  # noqa: BLE001
        return f"{type(e).__name__}: {e}"
    if deep and has_ck:
        tmp = path + ".documented_route.h5"
        try:
            shutil.copy(path, tmp)
            m = Model(Target.from_dict(scn["target"]))
            with entropy_seam(int(scn["seeds"]["entropy"]) + 424242, None):
                A = Aspire.resume_from_file(tmp, log_likelihood=SimLikelihood(m), log_prior=SimPrior(m))
                out = A.sample_posterior()
            if out is None or len(out.x) == 0:
                return "documented route (resume_from_file, then sample_posterior()) returned nothing"
        except (SimInterrupt, SimModelError):
            raise
        except Exception as e:  # noqa: BLE001
            return f"documented route (resume_from_file, then sample_posterior() with no arguments) raised {type(e).__name__}: {e}"
        finally:
            if os.path.exists(tmp):
                os.remove(tmp)
    return None
