"""C14 machine: one checkpoint file, one or more Aspire "processes", any order of
fit / refit / sample / auto-checkpoint contexts / crash / resume-from-file."""

from __future__ import annotations

import os
import pickle
import shutil

import numpy as np
from hypothesis import strategies as st
from hypothesis.stateful import RuleBasedStateMachine, rule

from ..core import SimInterrupt, SimModelError, Trace, entropy_seam, rng_from, to_np
from ..env import Model, SimLikelihood, SimPrior, make_target
from ..rng import make_generator
from .base import MachineMixin, Violation

SAMPLER_CLASS = {"smc": "MiniPCNSMC", "minipcn_smc": "MiniPCNSMC", "emcee_smc": "EmceeSMC", "importance": "ImportanceSampler"}
MAX_PROCS = 2
EMCEE_KW = {"nsteps": 1, "progress": False}


class Interp:
    def __init__(self, workdir, col):
        self.workdir = workdir
        self.col = col
        self.ops = []
        self.path = os.path.join(workdir, "run.h5")
        for f in (self.path,):
            if os.path.exists(f):
                os.remove(f)
        self.target = make_target("gauss_box", 2, rng_from(11))
        self.procs = []  # dicts: A, model, ctx (stack of context managers), fitted
        self._es = entropy_seam(5, None)
        self._es.__enter__()
        self.n_ops = 0

    # ------------------------------------------------------------------ helpers
    def _data(self, which):
        t = self.target
        lo, hi = np.asarray(t.lower), np.asarray(t.upper)
        centre = lo + (hi - lo) * (0.35 if which == "A" else 0.65)
        return centre + 0.05 * (hi - lo) * rng_from(1 if which == "A" else 2).normal(size=(80, 2))

    def _proc(self, i):
        if not self.procs:
            self._new_proc()
        return self.procs[i % len(self.procs)]

    def _new_proc(self):
        from aspire import Aspire

        m = Model(self.target, Trace())
        A = Aspire(log_likelihood=SimLikelihood(m), log_prior=SimPrior(m), dims=2, parameters=self.target.parameters,
                   prior_bounds=self.target.prior_bounds, flow_backend="simflow", kind="native", seed=3, inflate=2.0)
        p = {"A": A, "model": m, "ctx": [], "fitted": None}
        if len(self.procs) >= MAX_PROCS:
            old = self.procs.pop(0)
            self._close_ctx(old)
        self.procs.append(p)
        return p

    @staticmethod
    def _close_ctx(p):
        while p["ctx"]:
            p["ctx"].pop().__exit__(None, None, None)

    # --------------------------------------------------------------------- audit
    def audit(self, after, extra=None):
        """Semantic oracle on the file as it is right now."""
        from aspire.utils import AspireFile, load_from_h5_file

        from ..flows import SimFlow

        if not os.path.exists(self.path):
            return
        with AspireFile(self.path, "r") as f:
            has_ck = "checkpoint" in f and "state" in f["checkpoint"]
            if not has_ck:
                return
            blob = f["checkpoint"]["state"][...].tobytes()
            has_flow = "flow" in f
            has_cfg = "aspire_config" in f
            flow = SimFlow.load(f, "flow") if has_flow else None
            cfg = load_from_h5_file(f, "aspire_config") if has_cfg else None
        st_ = pickle.loads(blob)
        w = {"after": after.split("(")[0], **(extra or {})}
        self.col.nontrivial.add(("audit_with_checkpoint", after))
        if flow is None:
            raise Violation("c14.no_flow", f"after {after}: the file holds a checkpoint but no proposal", w)
        smp = st_["samples"]
        x = np.asarray(to_np(smp.x), dtype=np.float64)
        lq = np.asarray(to_np(smp.log_q), dtype=np.float64)
        want = flow._log_density(x)
        if lq.shape != want.shape or not np.allclose(lq, want, rtol=1e-8, atol=1e-8):
            raise Violation(
                "c14.flow_mismatch",
                f"after {after}: the proposal stored in the file (fingerprint {flow.fingerprint}, loc {np.round(flow.loc, 3).tolist()}) is not the one "
                f"under which the stored checkpoint's particles were weighted (max |log_q - file_flow.log_prob(x)| = "
                f"{float(np.max(np.abs(lq - want))):.3g})", w)
        if cfg is None:
            raise Violation("c14.no_config", f"after {after}: the file holds a checkpoint but no configuration", w)
        stype = cfg.get("sampler_type")
        if SAMPLER_CLASS.get(stype) != st_.get("sampler"):
            raise Violation(
                "c14.sampler_mismatch",
                f"after {after}: the stored configuration names sampler_type={stype!r} but the checkpoint in the file was written by "
                f"{st_.get('sampler')}", {**w, "sampler_type": stype, "checkpoint_sampler": st_.get("sampler")})

    def _resume_probe(self, after):
        """resume_from_file + sample_posterior() on a COPY of the file must run and must not mix population and proposal."""
        from aspire import Aspire

        if not os.path.exists(self.path):
            return
        copy = os.path.join(self.workdir, "probe.h5")
        shutil.copy(self.path, copy)
        m = Model(self.target, Trace())
        w = {"after": after.split("(")[0]}
        try:
            B = Aspire.resume_from_file(copy, log_likelihood=SimLikelihood(m), log_prior=SimPrior(m))
        except ValueError as e:
            if "not found" in str(e):
                return  # nothing to resume from yet (no config / flow): outside the statement
            raise Violation("c14.resume_failed", f"after {after}: resume_from_file raised {type(e).__name__}: {e}", {**w, "error_type": type(e).__name__})
        except Exception as e:  # noqa: BLE001
            raise Violation("c14.resume_failed", f"after {after}: resume_from_file raised {type(e).__name__}: {e}", {**w, "error_type": type(e).__name__})
        try:
            if getattr(B, "_resume_sampler_type", None) in ("smc", "minipcn_smc"):
                out, hist = B.sample_posterior(sampler_kwargs={"n_steps": 1}, rng=make_generator(99), return_history=True)
            elif getattr(B, "_resume_sampler_type", None) == "emcee_smc":
                out, hist = B.sample_posterior(sampler_kwargs=dict(EMCEE_KW), return_history=True)
            else:
                out, hist = B.sample_posterior(n_samples=16), None
        except Exception as e:  # noqa: BLE001
            raise Violation("c14.resume_failed", f"after {after}: resume_from_file(...).sample_posterior() raised {type(e).__name__}: {e}",
                            {**w, "error_type": type(e).__name__})
        if hist is not None and hist.sample_history:
            p0 = hist.sample_history[0]
            x = np.asarray(to_np(p0.x), dtype=np.float64)
            lq = np.asarray(to_np(p0.log_q), dtype=np.float64)
            want = B.flow._log_density(x)
            if not np.allclose(lq, want, rtol=1e-8, atol=1e-8):
                raise Violation("c14.resume_mixes", f"after {after}: the resumed run continued a population whose log_q does not belong to the proposal it loaded", w)
        self.col.nontrivial.add(("resume_probe", after.split("(")[0]))

    # ----------------------------------------------------------------------- ops
    def op_new_process(self):
        self.ops.append(("new_process", {}))
        self._new_proc()

    def op_fit(self, proc, data, with_path, overwrite):
        self.ops.append(("fit", dict(proc=proc, data=data, with_path=with_path, overwrite=overwrite)))
        from aspire.samples import Samples

        p = self._proc(proc)
        kw = {}
        if with_path:
            kw["checkpoint_path"] = self.path
        if overwrite:
            kw["overwrite"] = True
        p["A"].fit(Samples(self._data(data), parameters=self.target.parameters), **kw)
        p["fitted"] = data
        self.audit(f"fit(data {data}, path={'file' if with_path else ('context' if p['ctx'] else 'none')}, overwrite={overwrite})")

    def op_enter_auto(self, proc, every):
        p = self._proc(proc)
        if len(p["ctx"]) >= 2:
            return
        self.ops.append(("enter_auto", dict(proc=proc, every=every)))
        cm = p["A"].auto_checkpoint(self.path, every=every)
        cm.__enter__()
        p["ctx"].append(cm)

    def op_exit_auto(self, proc):
        p = self._proc(proc)
        if not p["ctx"]:
            return
        self.ops.append(("exit_auto", dict(proc=proc)))
        p["ctx"].pop().__exit__(None, None, None)
        self.audit("exit_auto")

    def op_sample(self, proc, sampler, explicit_path, crash_at, resume_none=False):
        p = self._proc(proc)
        if p["fitted"] is None:
            return
        self.ops.append(("sample", dict(proc=proc, sampler=sampler, explicit_path=explicit_path, crash_at=crash_at,
                                        resume_none=resume_none)))
        kw = {}
        if sampler == "smc":
            kw.update(sampler_kwargs={"n_steps": 1}, rng=make_generator(7 + len(self.ops)), target_efficiency=0.8)
        elif sampler == "emcee_smc":
            kw.update(sampler_kwargs=dict(EMCEE_KW), target_efficiency=0.8)
        if explicit_path:
            kw["checkpoint_path"] = self.path
        if sampler in ("smc", "emcee_smc"):
            if resume_none:
                # a FRESH run spelt with the keyword present (a driver that always writes resume_from=ckpt, ckpt None on
                # a first start; also the only way to opt out of the checkpoint primed by resume_from_file)
                kw["resume_from"] = None
                self.col.fault("fresh_run_with_explicit_resume_from_None")
        m = p["model"]
        m.crash_like_at = None if crash_at is None else m.n_like_calls + crash_at
        m.crash_kind = "model_error"
        where = f"sample({sampler}, {'explicit path' if explicit_path else ('auto context' if p['ctx'] else 'no file')}" + (", crashed" if crash_at is not None else "") + ")"
        crashed = False
        try:
            p["A"].sample_posterior(12, sampler=sampler, **kw)
        except SimModelError:
            crashed = True
            self.col.fault("crash_during_sample")
        finally:
            m.crash_like_at = None
        # which history led here is part of the verdict's identity (known_findings.json matches on it)
        self.audit(where, {"crashed": crashed, "on_resumed_instance": p["fitted"] == "file"})

    def op_resume_and_sample(self, in_context, sampler=None, override_at="ctor"):
        self.ops.append(("resume_and_sample", dict(in_context=in_context, sampler=sampler, override_at=override_at)))
        from aspire import Aspire

        if not os.path.exists(self.path):
            return
        m = Model(self.target, Trace())
        try:
            ckw = {"sampler": sampler} if (sampler is not None and override_at == "ctor") else {}
            B = Aspire.resume_from_file(self.path, log_likelihood=SimLikelihood(m), log_prior=SimPrior(m), **ckw)
        except ValueError as e:
            if "not found" in str(e):
                return
            raise
        w = {"after": "resume_and_sample"}
        primed = getattr(B, "_resume_sampler_type", None)
        if sampler is not None and primed not in ("smc", "minipcn_smc", "emcee_smc"):
            sampler = None  # nothing to continue with another SMC sampler (no SMC checkpoint in the file)
        now = sampler or primed
        if now in ("smc", "minipcn_smc"):
            kw = dict(sampler_kwargs={"n_steps": 1}, rng=make_generator(3))
        elif now == "emcee_smc":
            kw = dict(sampler_kwargs=dict(EMCEE_KW))
        else:
            kw = {"n_samples": 12}
        if sampler is not None and override_at == "sample":
            kw["sampler"] = sampler
        if sampler is not None and sampler != primed:
            self.col.fault("resume_with_other_sampler")
        try:
            if in_context:
                with B.auto_checkpoint(self.path, every=1):
                    B.sample_posterior(**kw)
            else:
                B.sample_posterior(**kw)
        except Exception as e:  # noqa: BLE001
            raise Violation("c14.resume_failed", f"resume_from_file(...).sample_posterior() on the file raised {type(e).__name__}: {e}",
                            {**w, "error_type": type(e).__name__})
        self.col.fault("restart:resume_from_file")
        self.audit("resume_and_sample")
        # the resumed instance is now one of the processes
        p = {"A": B, "model": m, "ctx": [], "fitted": "file"}
        if len(self.procs) >= MAX_PROCS:
            self._close_ctx(self.procs.pop(0))
        self.procs.append(p)

    def finish(self):
        self._resume_probe("end of sequence")

    def close(self):
        for p in self.procs:
            try:
                self._close_ctx(p)
            except Exception:
                pass
        self.procs = []
        if self._es is not None:
            self._es.__exit__(None, None, None)
            self._es = None


def make_machine(interp_factory, workdir, col):
    class C14Machine(MachineMixin, RuleBasedStateMachine):
        def __init__(self):
            super().__init__()
            self.it = interp_factory(workdir, col)

        @rule()
        def new_process(self):
            self.do("new_process", )

        @rule(proc=st.integers(0, 1), data=st.sampled_from(["A", "B"]), with_path=st.booleans(), overwrite=st.booleans())
        def fit(self, proc, data, with_path, overwrite):
            self.do("fit", proc=proc, data=data, with_path=with_path, overwrite=overwrite)

        @rule(proc=st.integers(0, 1), every=st.integers(1, 2))
        def enter_auto(self, proc, every):
            self.do("enter_auto", proc=proc, every=every)

        @rule(proc=st.integers(0, 1))
        def exit_auto(self, proc):
            self.do("exit_auto", proc=proc)

        @rule(proc=st.integers(0, 1), sampler=st.sampled_from(["smc", "smc", "importance", "emcee_smc"]), explicit_path=st.booleans(),
              crash_at=st.one_of(st.none(), st.none(), st.integers(0, 6)),
              resume_none=st.sampled_from([False, False, True]))
        def sample(self, proc, sampler, explicit_path, crash_at, resume_none):
            self.do("sample", proc=proc, sampler=sampler, explicit_path=explicit_path, crash_at=crash_at, resume_none=resume_none)

        @rule(in_context=st.booleans(), sampler=st.sampled_from([None, None, "smc", "emcee_smc"]), override_at=st.sampled_from(["ctor", "sample"]))
        def resume_and_sample(self, in_context, sampler, override_at):
            self.do("resume_and_sample", in_context=in_context, sampler=sampler, override_at=override_at)

        def teardown(self):
            self.finish_example(col)

    return C14Machine
