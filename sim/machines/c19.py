"""C19 machine: nestings of enable_pool / auto_checkpoint with exceptions at every body position."""

from __future__ import annotations

import os

import numpy as np
from hypothesis import strategies as st
from hypothesis.stateful import RuleBasedStateMachine, initialize, precondition, rule

from ..core import SimModelError, Trace, entropy_seam, rng_from
from ..env import FakePool, Model, PoolShutdownError, SimLikelihood, SimPrior, make_target
from ..rng import make_generator
from .base import MachineMixin, Violation

MAX_DEPTH = 4


class BodyError(Exception):
    """The exception injected inside a with-body."""


class BodyInterrupt(BaseException):
    """Like KeyboardInterrupt / SystemExit: leaves the body without being an Exception."""


class Interp:
    def __init__(self, workdir, col):
        self.workdir = workdir
        self.col = col
        self.ops = []
        self.stack = []  # active contexts, innermost last
        self.pending = []  # context managers built (enable_pool(...) / auto_checkpoint(...) called) but not entered yet
        self.reusable = None  # a pool handler that was left with close_pool=False: it may be entered again
        self.A = None
        self.model = None
        self.n_samples_run = 0
        self._es = None

    # ---------------------------------------------------------------- set-up
    def op_init(self, primed: bool, seed: int):
        from aspire import Aspire
        from aspire.samples import Samples

        self.ops.append(("init", {"primed": primed, "seed": seed}))
        self._es = entropy_seam(seed, None)
        self._es.__enter__()
        t = make_target("gauss_box", 2, rng_from(seed))
        self.model = Model(t, Trace())
        kw = dict(dims=2, parameters=t.parameters, prior_bounds=t.prior_bounds, flow_backend="simflow", kind="native", seed=3)
        A = Aspire(log_likelihood=SimLikelihood(self.model), log_prior=SimPrior(self.model), **kw)
        mean, var = t.moments()
        x = rng_from(seed + 1).normal(mean, np.sqrt(var), size=(100, 2))
        A.fit(Samples(x, parameters=t.parameters))
        self.primed = primed
        if primed:
            # an instance whose checkpoint defaults are NOT None on entry: built by resume_from_file
            path = os.path.join(self.workdir, "primed.h5")
            if os.path.exists(path):
                os.remove(path)
            A.sample_posterior(8, sampler="smc", checkpoint_path=path, sampler_kwargs={"n_steps": 1},
                               rng=make_generator(seed))
            self.model = Model(t, Trace())
            A = Aspire.resume_from_file(path, log_likelihood=SimLikelihood(self.model), log_prior=SimPrior(self.model))
        self.A = A

    # ------------------------------------------------------------ observation
    def _snapshot(self):
        A = self.A
        d = getattr(A, "_checkpoint_defaults", "<absent>")
        return {
            "ll": A.log_likelihood,
            "lp": A.log_prior,
            "defaults_obj": d,
            "defaults_val": None if d == "<absent>" else dict(d),
        }

    def _check_restored(self, lvl, snap, how):
        A = self.A
        w = {"kind": lvl["kind"], "exit": how, "depth": len(self.stack) + 1, "primed": self.primed,
             "built_earlier": bool(lvl.get("built_earlier")), "reused": bool(lvl.get("reused"))}
        if A.log_likelihood is not snap["ll"]:
            raise Violation("c19.likelihood_not_restored", f"after leaving {lvl['kind']} ({how}) at depth {w['depth']} the instance's "
                            f"log_likelihood is not the object it was on entry", w)
        if A.log_prior is not snap["lp"]:
            raise Violation("c19.prior_not_restored", f"after leaving {lvl['kind']} ({how}) at depth {w['depth']} the instance's log_prior "
                            f"is not the object it was on entry", w)
        d = getattr(A, "_checkpoint_defaults", "<absent>")
        before = snap["defaults_val"]
        now = None if d == "<absent>" else dict(d)
        if (before is None) != (now is None):
            raise Violation("c19.defaults_not_restored", f"after leaving {lvl['kind']} ({how}) the checkpoint defaults are "
                            f"{'present' if now is not None else 'absent'} but were {'present' if before is not None else 'absent'} on entry", w)
        if before is not None:
            # compare the settings a caller relies on (path / cadence / what to save); the saved_* progress flags of an
            # enclosing context legitimately change while sampling happens inside it
            keys = ("path", "every", "save_config", "save_flow")
            if any(before.get(k) != now.get(k) for k in keys):
                raise Violation("c19.defaults_not_restored", f"after leaving {lvl['kind']} ({how}) the checkpoint defaults are "
                                f"{ {k: now.get(k) for k in keys} } but were { {k: before.get(k) for k in keys} } on entry", w)

    # ------------------------------------------------------------------- ops
    def op_enter_pool(self, close_pool: bool, parallelize_prior: bool, fail_map_at, fail_close=None):
        if len(self.stack) >= MAX_DEPTH:
            return
        self.ops.append(("enter_pool", {"close_pool": close_pool, "parallelize_prior": parallelize_prior, "fail_map_at": fail_map_at,
                                        "fail_close": fail_close}))
        snap = self._snapshot()
        pool = FakePool(fail_map_at=fail_map_at, fail_close=fail_close)
        cm = self.A.enable_pool(pool, close_pool=close_pool, parallelize_prior=parallelize_prior)
        got = cm.__enter__()
        self.stack.append({"kind": "enable_pool", "cm": cm, "snap": snap, "pool": pool, "close_pool": close_pool})
        if self.A.log_likelihood is snap["ll"]:
            raise Violation("c19.pool_not_installed", "inside enable_pool the likelihood was not replaced by a map-aware callable", {})

    def op_enter_auto(self, file_id: int, every: int, save_config: bool):
        if len(self.stack) >= MAX_DEPTH:
            return
        self.ops.append(("enter_auto", {"file_id": file_id, "every": every, "save_config": save_config}))
        snap = self._snapshot()
        path = os.path.join(self.workdir, f"auto{file_id}.h5")
        cm = self.A.auto_checkpoint(path, every=every, save_config=save_config)
        cm.__enter__()
        self.stack.append({"kind": "auto_checkpoint", "cm": cm, "snap": snap, "path": path})
        d = getattr(self.A, "_checkpoint_defaults", None)
        if not d or d.get("path") != path or d.get("every") != every:
            raise Violation("c19.auto_not_installed", "inside auto_checkpoint the defaults do not name the requested file/cadence", {})

    # "on entry" means when the with-statement is entered, not when the context manager object was made: a handler may be
    # built first and entered later (two handlers made up front and then nested), or entered a second time
    def op_build_pool(self, close_pool: bool, parallelize_prior: bool):
        if len(self.pending) >= 2:
            return
        self.ops.append(("build_pool", {"close_pool": close_pool, "parallelize_prior": parallelize_prior}))
        pool = FakePool(fail_map_at=None)
        cm = self.A.enable_pool(pool, close_pool=close_pool, parallelize_prior=parallelize_prior)
        self.pending.append({"kind": "enable_pool", "cm": cm, "pool": pool, "close_pool": close_pool})

    def op_build_auto(self, file_id: int, every: int):
        if len(self.pending) >= 2:
            return
        self.ops.append(("build_auto", {"file_id": file_id, "every": every}))
        path = os.path.join(self.workdir, f"auto{file_id}.h5")
        cm = self.A.auto_checkpoint(path, every=every)
        self.pending.append({"kind": "auto_checkpoint", "cm": cm, "path": path, "every": every})

    def op_enter_built(self, which: int):
        if not self.pending or len(self.stack) >= MAX_DEPTH:
            return
        self.ops.append(("enter_built", {"which": which}))
        item = self.pending.pop(which % len(self.pending))
        snap = self._snapshot()
        item["cm"].__enter__()
        self.stack.append({**item, "snap": snap, "built_earlier": True})
        self.col.fault("context_built_before_entry")
        if item["kind"] == "enable_pool" and self.A.log_likelihood is snap["ll"]:
            raise Violation("c19.pool_not_installed", "inside enable_pool the likelihood was not replaced by a map-aware callable", {})
        if item["kind"] == "auto_checkpoint":
            d = getattr(self.A, "_checkpoint_defaults", None)
            if not d or d.get("path") != item["path"] or d.get("every") != item["every"]:
                raise Violation("c19.auto_not_installed", "inside auto_checkpoint the defaults do not name the requested file/cadence", {})

    def op_reenter_pool(self):
        if self.reusable is None or len(self.stack) >= MAX_DEPTH:
            return
        self.ops.append(("reenter_pool", {}))
        item, self.reusable = self.reusable, None
        snap = self._snapshot()
        item["cm"].__enter__()
        self.stack.append({"kind": "enable_pool", "cm": item["cm"], "pool": item["pool"], "close_pool": False, "snap": snap, "reused": True})
        self.col.fault("pool_handler_entered_again")

    def _exit_level(self, exc):
        lvl = self.stack.pop()
        how = "exception" if exc is not None else "normal"
        new_exc = exc
        try:
            if exc is None:
                suppressed = lvl["cm"].__exit__(None, None, None)
            else:
                suppressed = lvl["cm"].__exit__(type(exc), exc, exc.__traceback__)
        except BaseException as e:  # noqa: BLE001
            if e is not exc:
                # the pool's own shutdown failing is one more exit path: everything must have been put back all the same,
                # and the failure (not a Violation) is what the enclosing bodies now see
                shutdown_failed = (lvl["kind"] == "enable_pool" and lvl["close_pool"] and isinstance(e, PoolShutdownError)
                                   and getattr(lvl["pool"], "fail_close", None) is not None)
                how = how + "+pool_shutdown_failed" if shutdown_failed else how
                self._check_restored(lvl, lvl["snap"], how)
                if not shutdown_failed:
                    raise Violation("c19.exit_raised", f"leaving {lvl['kind']} ({how}) raised {type(e).__name__}: {e}",
                                    {"kind": lvl["kind"], "exit": how})
                self.col.fault("pool_shutdown_failed:" + lvl["pool"].fail_close)
                new_exc = e
            suppressed = False
        if exc is not None and suppressed:
            raise Violation("c19.exception_swallowed", f"{lvl['kind']} swallowed the exception raised in its body", {"kind": lvl["kind"]})
        self._check_restored(lvl, lvl["snap"], how)
        if lvl["kind"] == "enable_pool":
            p = lvl["pool"]
            want = 1 if lvl["close_pool"] else 0
            want_join = 0 if (want and getattr(p, "fail_close", None) == "close") else want
            if p.n_close != want or p.n_join != want_join:
                raise Violation("c19.pool_close", f"enable_pool(close_pool={lvl['close_pool']}) left the pool with close={p.n_close} join={p.n_join} "
                                f"after a {how} exit", {"close_pool": lvl["close_pool"], "exit": how})
        if lvl["kind"] == "enable_pool" and not lvl["close_pool"] and exc is None and not lvl.get("reused"):
            self.reusable = lvl
        self.col.nontrivial.add((lvl["kind"], how if exc is None else type(exc).__name__, len(self.stack) + 1, self.primed,
                                 bool(lvl.get("built_earlier")), bool(lvl.get("reused"))))
        return new_exc

    def op_exit_normal(self):
        if not self.stack:
            return
        self.ops.append(("exit_normal", {}))
        e = self._exit_level(None)
        if e is not None:
            self._unwind(e)

    def _unwind(self, exc):
        """An exception raised at the current body position propagates through every enclosing context."""
        self.col.fault("body_exception@depth%d" % len(self.stack))
        while self.stack:
            exc = self._exit_level(exc)

    def op_raise_in_body(self, base_exception=False):
        if not self.stack:
            return
        self.ops.append(("raise_in_body", {"base_exception": base_exception}))
        try:
            # an ordinary exception, or one that is NOT an Exception subclass (Ctrl-C / sys.exit() in the body)
            raise (BodyInterrupt("injected") if base_exception else BodyError("injected"))
        except (BodyError, BodyInterrupt) as e:
            self.col.fault("body_base_exception" if base_exception else "body_exception")
            self._unwind(e)

    def op_sample(self, sampler: str, crash_like_at):
        """A sampling call at the current body position (may itself fail: user model error, pool worker failure)."""
        self.ops.append(("sample", {"sampler": sampler, "crash_like_at": crash_like_at}))
        self.model.crash_like_at = None if crash_like_at is None else self.model.n_like_calls + crash_like_at
        self.model.crash_kind = "model_error"
        kw = {}
        if sampler == "smc":
            kw = {"sampler_kwargs": {"n_steps": 1}, "rng": make_generator(5 + self.n_samples_run)}
        inside_pool = any(l["kind"] == "enable_pool" for l in self.stack)
        try:
            self.A.sample_posterior(8, sampler=sampler, **kw)
            self.n_samples_run += 1
            if inside_pool:
                self.col.probe("sampling_call_inside_pool")
                if sum(l["pool"].n_map for l in self.stack if l["kind"] == "enable_pool") > 0:
                    self.col.probe("pool_map_called_by_sampling")
        except SimModelError as e:
            self.col.fault("pool_map_fail" if "pool.map" in str(e) else "model_error_in_body")
            self._unwind(e)
        finally:
            self.model.crash_like_at = None

    def finish(self):
        # leave whatever is still open, normally (a failing pool shutdown turns the rest into an unwinding)
        e = None
        while self.stack:
            e = self._exit_level(e)

    def close(self):
        if self._es is not None:
            self._es.__exit__(None, None, None)
            self._es = None


def make_machine(interp_factory, workdir, col):
    class C19Machine(MachineMixin, RuleBasedStateMachine):
        def __init__(self):
            super().__init__()
            self.it = interp_factory(workdir, col)

        @initialize(primed=st.booleans(), seed=st.integers(0, 50))
        def init(self, primed, seed):
            self.do("init", primed=primed, seed=seed)

        @rule(close_pool=st.booleans(), parallelize_prior=st.booleans(), fail_map_at=st.one_of(st.none(), st.none(), st.integers(0, 3)),
              fail_close=st.sampled_from([None, None, None, "close", "join"]))
        def enter_pool(self, close_pool, parallelize_prior, fail_map_at, fail_close):
            self.do("enter_pool", close_pool=close_pool, parallelize_prior=parallelize_prior, fail_map_at=fail_map_at, fail_close=fail_close)

        @rule(file_id=st.integers(0, 2), every=st.integers(1, 3), save_config=st.booleans())
        def enter_auto(self, file_id, every, save_config):
            self.do("enter_auto", file_id=file_id, every=every, save_config=save_config)

        @rule(close_pool=st.booleans(), parallelize_prior=st.booleans())
        def build_pool(self, close_pool, parallelize_prior):
            self.do("build_pool", close_pool=close_pool, parallelize_prior=parallelize_prior)

        @rule(file_id=st.integers(0, 2), every=st.integers(1, 3))
        def build_auto(self, file_id, every):
            self.do("build_auto", file_id=file_id, every=every)

        @rule(which=st.integers(0, 1))
        def enter_built(self, which):
            self.do("enter_built", which=which)

        @rule()
        def reenter_pool(self):
            self.do("reenter_pool", )

        @rule()
        def exit_normal(self):
            self.do("exit_normal", )

        @rule(base_exception=st.booleans())
        def raise_in_body(self, base_exception):
            self.do("raise_in_body", base_exception=base_exception)

        @rule(sampler=st.sampled_from(["importance", "importance", "smc"]), crash_like_at=st.one_of(st.none(), st.none(), st.integers(0, 4)))
        def sample(self, sampler, crash_like_at):
            self.do("sample", sampler=sampler, crash_like_at=crash_like_at)

        def teardown(self):
            self.finish_example(col)

    return C19Machine
