"""C13 machine: one HDF5 file as a key -> object store with an in-memory model of what was put where."""

from __future__ import annotations

import gc
import os

import numpy as np
from hypothesis import strategies as st
from hypothesis.stateful import RuleBasedStateMachine, rule

from ..core import rng_from, to_np
from ..runner import xp_of
from .base import MachineMixin, Violation
from .c16 import bits_of, ns_of

TRANSFORMS = ("Identity", "Periodic", "Probit", "Logit", "Affine", "Composite", "FlowT")


def _eq(a, b, bits, what, w, oracle="c13.value"):
    a = np.asarray(to_np(a), dtype=np.float64)
    b = np.asarray(to_np(b), dtype=np.float64)
    tol = dict(rtol=1e-6, atol=1e-6) if bits == 32 else dict(rtol=1e-12, atol=1e-12)
    if a.shape != b.shape or not np.allclose(a, b, equal_nan=True, **tol):
        raise Violation(oracle, f"{what}: reloaded values differ from what was saved (shape {a.shape} vs {b.shape})", w)


class Interp:
    def __init__(self, workdir, col):
        self.workdir = workdir
        self.col = col
        self.ops = []
        self.path = os.path.join(workdir, "store.h5")
        if os.path.exists(self.path):
            os.remove(self.path)
        self.model = {}  # key -> description
        self.k = 0

    def _key(self, prefix):
        self.k += 1
        return f"{prefix}_{self.k}"

    def _file(self, mode):
        from aspire.utils import AspireFile

        return AspireFile(self.path, mode)

    # ---------------------------------------------------------------- samples
    def _make_samples(self, cls, xp, dtype, fields, n, d, seed, named=True):
        import aspire.samples as S

        rng = rng_from(seed)
        XP = xp_of(xp)
        bits = 32 if (dtype == "float32" or (dtype is None and xp == "torch")) else 64
        npdt = np.float32 if bits == 32 else np.float64
        x = rng.normal(size=(n, d)).astype(npdt)
        arrs = {k: (rng.normal(size=n).astype(npdt) if fields[i] else None) for i, k in enumerate(("log_likelihood", "log_prior", "log_q"))}
        kw = dict(x=XP.asarray(x), xp=XP, dtype=dtype)
        if named:
            kw["parameters"] = [f"par{i}" for i in range(d)]
        for k, v in arrs.items():
            if v is not None:
                kw[k] = XP.asarray(v)
        if cls == "SMCSamples":
            kw["beta"] = 0.375
            kw["log_evidence"] = -2.5
        obj = getattr(S, cls)(**kw)
        desc = {"kind": "samples", "cls": cls, "xp": xp, "bits": bits, "x": x, **arrs,
                "parameters": list(obj.parameters), "beta": kw.get("beta"),
                "log_evidence": None if getattr(obj, "log_evidence", None) is None else float(to_np(obj.log_evidence))}
        return obj, desc

    def op_save_samples(self, cls, xp, dtype, fields, flat, n, d, seed, named):
        self.ops.append(("save_samples", dict(cls=cls, xp=xp, dtype=dtype, fields=fields, flat=flat, n=n, d=d, seed=seed, named=named)))
        obj, desc = self._make_samples(cls, xp, dtype, fields, n, d, seed, named)
        key = self._key("samples")
        with self._file("a") as f:
            obj.save(f, path=key, flat=flat)
        desc["flat"] = flat
        self.model[key] = desc
        del obj

    def _check_samples(self, obj, m, what):
        w = {"kind": "samples", "cls": m["cls"], "xp": m["xp"], "bits": m["bits"], "flat": m.get("flat"),
             "fields": "".join(c for c, k in zip("lpq", ("log_likelihood", "log_prior", "log_q")) if m[k] is not None)}
        if type(obj).__name__ != m["cls"]:
            raise Violation("c13.class", f"{what}: reloaded as {type(obj).__name__}", w)
        if ns_of(obj.x) != m["xp"]:
            raise Violation("c13.namespace", f"{what}: reloaded x lives in {ns_of(obj.x)}, saved from {m['xp']}", w)
        if bits_of(obj.x) != m["bits"]:
            raise Violation("c13.dtype", f"{what}: reloaded x is float{bits_of(obj.x)}, saved as float{m['bits']}", w)
        _eq(obj.x, m["x"], m["bits"], what + ".x", w)
        for k in ("log_likelihood", "log_prior", "log_q"):
            v = getattr(obj, k, None)
            if (v is None) != (m[k] is None):
                raise Violation("c13.field_presence", f"{what}: optional field {k} {'lost' if v is None else 'appeared'} on reload", {**w, "field": k})
            if v is not None:
                _eq(v, m[k], m["bits"], f"{what}.{k}", {**w, "field": k})
                if bits_of(v) != m["bits"] or ns_of(v) != m["xp"]:
                    raise Violation("c13.dtype", f"{what}: {k} reloaded as {ns_of(v)} float{bits_of(v)}", {**w, "field": k})
        if list(obj.parameters) != list(m["parameters"]):
            raise Violation("c13.parameters", f"{what}: parameter names {list(obj.parameters)} != saved {m['parameters']}", w)
        if m["cls"] == "SMCSamples":
            if obj.beta is None or float(obj.beta) != m["beta"]:
                raise Violation("c13.value", f"{what}: beta {obj.beta} != {m['beta']}", {**w, "field": "beta"})
        if m["log_evidence"] is not None:
            le = getattr(obj, "log_evidence", None)
            if le is None or not np.isclose(float(to_np(le)), m["log_evidence"], rtol=1e-5, atol=1e-6):
                raise Violation("c13.value", f"{what}: log_evidence {le} != saved {m['log_evidence']}", {**w, "field": "log_evidence"})
        self.col.nontrivial.add(("samples", m["cls"], m["xp"], m["bits"], w["fields"], m.get("flat")))

    # ---------------------------------------------------------------- history
    def op_save_history(self, kind, xp, dtype, n_iter, seed, with_pops):
        self.ops.append(("save_history", dict(kind=kind, xp=xp, dtype=dtype, n_iter=n_iter, seed=seed, with_pops=with_pops)))
        from aspire.history import FlowHistory, SMCHistory

        rng = rng_from(seed)
        key = self._key("hist")
        if kind == "flow":
            h = FlowHistory(training_loss=[float(v) for v in rng.normal(size=n_iter)], validation_loss=[float(v) for v in rng.normal(size=n_iter)])
            desc = {"kind": "flow_history", "training_loss": list(h.training_loss), "validation_loss": list(h.validation_loss)}
        else:
            h = SMCHistory()
            desc = {"kind": "smc_history", "series": {}, "pops": []}
            for name in ("log_norm_ratio", "log_norm_ratio_var", "beta", "ess", "ess_target", "eff_target", "mcmc_acceptance"):
                vals = [float(v) for v in rng.normal(size=n_iter)]
                setattr(h, name, list(vals))
                desc["series"][name] = vals
            if with_pops:
                for i in range(n_iter + 1):
                    obj, d = self._make_samples("SMCSamples", xp, dtype, [True, True, True], 4, 2, seed + i)
                    h.sample_history.append(obj)
                    desc["pops"].append(d)
        with self._file("a") as f:
            h.save(f, path=key)
        self.model[key] = desc

    def _check_history(self, key, m):
        from aspire.history import FlowHistory, SMCHistory

        with self._file("r") as f:
            h = (FlowHistory if m["kind"] == "flow_history" else SMCHistory).load(f, path=key)
        w = {"kind": m["kind"]}
        if m["kind"] == "flow_history":
            for k in ("training_loss", "validation_loss"):
                _eq(np.asarray(getattr(h, k), dtype=float), m[k], 64, f"FlowHistory.{k}", {**w, "series": k})
        else:
            for k, vals in m["series"].items():
                got = getattr(h, k)
                if len(got) != len(vals):
                    raise Violation("c13.value", f"SMCHistory.{k} has {len(got)} entries after reload, {len(vals)} saved", {**w, "series": k})
                _eq(np.asarray([float(to_np(v)) for v in got]), vals, 64, f"SMCHistory.{k}", {**w, "series": k})
            if len(h.sample_history) != len(m["pops"]):
                raise Violation("c13.value", f"SMCHistory.sample_history has {len(h.sample_history)} populations after reload, {len(m['pops'])} saved", w)
            for i, (p, d) in enumerate(zip(h.sample_history, m["pops"])):
                self._check_samples(p, d, f"SMCHistory.sample_history[{i}]")
        self.col.nontrivial.add((m["kind"], len(m.get("pops", [])) > 0))

    # -------------------------------------------------------------- transforms
    def _make_transform(self, cls, xp, dtype, opts, seed):
        import aspire.transforms as T

        XP = xp_of(xp)
        rng = rng_from(seed)
        d = 3
        params = ["tau", "phi", "eta"]  # not in alphabetical order
        lo = np.array([-1.0, 0.0, 2.0])
        hi = np.array([3.0, 6.283185307179586, 9.5])
        bounds = {p: (float(a), float(b)) for p, a, b in zip(params, lo, hi)}
        x = lo + (hi - lo) * rng.uniform(0.05, 0.95, size=(12, d))
        kw = dict(xp=XP, dtype=dtype)
        if cls == "Identity":
            t = T.IdentityTransform(**kw)
        elif cls == "Periodic":
            t = T.PeriodicTransform(lower=lo, upper=hi, **kw)
        elif cls == "Probit":
            t = T.ProbitTransform(lower=lo, upper=hi, eps=opts["eps"], **kw)
        elif cls == "Logit":
            t = T.LogitTransform(lower=lo, upper=hi, eps=opts["eps"], **kw)
        elif cls == "Affine":
            t = T.AffineTransform(**kw)
        elif cls == "Composite":
            t = T.CompositeTransform(parameters=params, periodic_parameters=["phi"] if opts["periodic"] else None, prior_bounds=bounds,
                                     bounded_to_unbounded=opts["bounded"], bounded_transform=opts["bounded_transform"],
                                     affine_transform=opts["affine"], eps=opts["eps"], **kw)
        elif cls == "FlowT":
            t = T.FlowTransform(parameters=params, prior_bounds=bounds, bounded_to_unbounded=opts["bounded"],
                                bounded_transform=opts["bounded_transform"], affine_transform=opts["affine"], eps=opts["eps"], **kw)
        else:
            raise ValueError(cls)
        return t, x

    def op_save_transform(self, cls, xp, dtype, opts, seed, fitted):
        self.ops.append(("save_transform", dict(cls=cls, xp=xp, dtype=dtype, opts=opts, seed=seed, fitted=fitted)))
        t, x = self._make_transform(cls, xp, dtype, opts, seed)
        XP = xp_of(xp)
        bits = 32 if (dtype == "float32" or (dtype is None and xp == "torch")) else 64
        xin = XP.asarray(x.astype(np.float32 if bits == 32 else np.float64))
        needs_fit = cls == "Affine" or (cls in ("Composite", "FlowT") and opts["affine"])
        if fitted or needs_fit:
            t.fit(xin)
        y, lj = t.forward(xin)
        xb, ljb = t.inverse(y)
        key = self._key("transform")
        with self._file("a") as f:
            t.save(f, path=key)
        self.model[key] = {"kind": "transform", "cls": cls, "xp": xp, "bits": bits, "dtype": dtype, "x": x, "y": to_np(y), "lj": to_np(lj),
                           "xb": to_np(xb), "ljb": to_np(ljb), "class_name": type(t).__name__}

    def _check_transform(self, key, m):
        from aspire.transforms import BaseTransform

        w = {"kind": "transform", "cls": m["cls"], "xp": m["xp"], "bits": m["bits"]}
        with self._file("r") as f:
            t = BaseTransform.load(f, path=key)
        if type(t).__name__ != m["class_name"]:
            raise Violation("c13.class", f"transform saved as {m['class_name']} reloaded as {type(t).__name__}", w)
        XP = xp_of(m["xp"])
        if ns_of(XP.asarray([0.0])) != ns_of(t.xp.asarray([0.0])):
            raise Violation("c13.namespace", f"{m['class_name']}: reloaded transform uses another namespace", w)
        xin = XP.asarray(m["x"].astype(np.float32 if m["bits"] == 32 else np.float64))
        y, lj = t.forward(xin)
        _eq(y, m["y"], 32 if m["bits"] == 32 else 64, f"{m['class_name']}.forward", w, "c13.transform_map") if m["bits"] == 64 else _eq(y, m["y"], 32, f"{m['class_name']}.forward", w, "c13.transform_map")
        _eq(lj, m["lj"], m["bits"], f"{m['class_name']}.forward log-Jacobian", w, "c13.transform_map")
        xb, ljb = t.inverse(XP.asarray(m["y"]))
        _eq(xb, m["xb"], m["bits"], f"{m['class_name']}.inverse", w, "c13.transform_map")
        _eq(ljb, m["ljb"], m["bits"], f"{m['class_name']}.inverse log-Jacobian", w, "c13.transform_map")
        if bits_of(y) != m["bits"]:
            # not demanded: the statement asks a reloaded transform to reproduce the same map; a float32 transform whose
            # reloaded eps is a numpy float64 scalar widens its outputs under jax promotion rules (values equal)
            self.col.probe("transform_output_width_changed_on_reload")
        self.col.nontrivial.add(("transform", m["cls"], m["xp"], m["bits"]))

    # ------------------------------------------------------------ dictionaries
    def op_save_dict(self, seed, shape):
        self.ops.append(("save_dict", dict(seed=seed, shape=shape)))
        from aspire.utils import recursively_save_to_h5_file

        rng = rng_from(seed)
        d = {
            "none": None,
            "empty": {},
            "int": int(rng.integers(-5, 5)),
            "float": float(rng.normal()),
            "np_float": np.float64(rng.normal()),
            "np_int": np.int64(rng.integers(0, 9)),
            "np_float32": np.float32(0.5),
            "string": "text-%d" % seed,
            "strings": ["a", "bc", "d e"],
            "array": rng.normal(size=(2, 3)),
            "int_array": np.arange(4),
            "bool": bool(seed % 2),
            "nested": {"inner_none": None, "inner_list": [1.5, 2.5], "deeper": {"empty": {}, "v": 3, "names": ["x", "y"]}},
        }
        keep = {k: v for i, (k, v) in enumerate(d.items()) if (shape >> i) & 1 or k in ("none", "nested")}
        key = self._key("dict")
        with self._file("a") as f:
            recursively_save_to_h5_file(f, key, keep)
        self.model[key] = {"kind": "dict", "value": keep}

    def _check_dict(self, key, m):
        from aspire.utils import load_from_h5_file

        with self._file("r") as f:
            got = load_from_h5_file(f, key)

        def cmp(a, b, path):
            w = {"kind": "dict", "key": path.split(".")[-1]}
            if b is None:
                if a is not None:
                    raise Violation("c13.dict", f"{path}: None came back as {a!r}", w)
            elif isinstance(b, dict):
                if not isinstance(a, dict) or set(a) != set(b):
                    raise Violation("c13.dict", f"{path}: dict with keys {sorted(b)} came back as {sorted(a) if isinstance(a, dict) else type(a).__name__}", w)
                for k in b:
                    cmp(a[k], b[k], f"{path}.{k}")
            elif isinstance(b, str):
                if a != b:
                    raise Violation("c13.dict", f"{path}: string {b!r} came back as {a!r}", w)
            elif isinstance(b, (list, tuple)) and all(isinstance(v, str) for v in b):
                if list(a) != list(b):
                    raise Violation("c13.dict", f"{path}: string list {b!r} came back as {a!r}", w)
            elif isinstance(b, bool):
                if bool(a) != b:
                    raise Violation("c13.dict", f"{path}: {b!r} came back as {a!r}", w)
            else:
                aa, bb = np.asarray(a, dtype=np.float64), np.asarray(b, dtype=np.float64)
                if aa.shape != bb.shape or not np.allclose(aa, bb, rtol=1e-7, atol=0):
                    raise Violation("c13.dict", f"{path}: {b!r} came back as {a!r}", w)

        cmp(got, m["value"], key)
        self.col.nontrivial.add(("dict", len(m["value"])))

    # ----------------------------------------------------------------- config
    def op_save_aspire(self, xp, dtype, opts, seed):
        self.ops.append(("save_aspire", dict(xp=xp, dtype=dtype, opts=opts, seed=seed)))
        from aspire import Aspire
        from aspire.samples import Samples

        from ..env import Model, SimLikelihood, SimPrior, make_target

        t = make_target("periodic" if opts["periodic"] else "gauss_box", 2, rng_from(seed))
        m = Model(t)
        kw = dict(dims=2, parameters=t.parameters, prior_bounds=t.prior_bounds if opts["bounds"] or opts["periodic"] else None,
                  periodic_parameters=t.periodic_parameters if opts["periodic"] else None,
                  bounded_to_unbounded=opts["bounded"], bounded_transform=opts["bounded_transform"], eps=opts["eps"],
                  xp=xp_of(xp) if opts["xp_given"] else None, dtype=dtype, flow_backend="simflow",
                  kind="native", seed=int(seed), inflate=1.25 + 0.25 * (seed % 3), alpha=0.0)
        A = Aspire(log_likelihood=SimLikelihood(m), log_prior=SimPrior(m), **kw)
        x = np.asarray(t.lower) + (np.asarray(t.upper) - np.asarray(t.lower)) * rng_from(seed).uniform(0.3, 0.7, size=(40, 2))
        A.fit(Samples(x, parameters=t.parameters, xp=xp_of(xp)))
        key = self._key("aspire")
        with self._file("a") as f:
            A.save_config(f, path=key + "_config", include_sampler_config=False)
            A.save_flow(f, path=key + "_flow")
        self.model[key] = {
            "kind": "aspire", "target": t.to_dict(), "xp": xp_name_or_none(A.xp), "dtype": dtype,
            "settings": {"dims": 2, "parameters": list(t.parameters), "prior_bounds": kw["prior_bounds"],
                         "periodic_parameters": kw["periodic_parameters"], "bounded_to_unbounded": opts["bounded"],
                         "bounded_transform": opts["bounded_transform"], "eps": opts["eps"], "flow_backend": "simflow",
                         "flow_matching": False, "flow_kwargs": {"kind": "native", "seed": int(seed), "inflate": 1.25 + 0.25 * (seed % 3), "alpha": 0.0}},
            "flow_fp": A.flow.fingerprint,
        }

    def _check_aspire(self, key, m):
        from aspire import Aspire

        from ..env import Model, SimLikelihood, SimPrior, Target

        mm = Model(Target.from_dict(m["target"]))
        w = {"kind": "aspire", "xp": m["xp"], "dtype": m["dtype"]}
        try:
            with_file = Aspire.resume_from_file(self.path, log_likelihood=SimLikelihood(mm), log_prior=SimPrior(mm),
                                                config_path=key + "_config", flow_path=key + "_flow", checkpoint_path="no_such_group")
        except Exception as e:  # noqa: BLE001
            raise Violation("c13.rebuild_failed", f"Aspire.resume_from_file on a saved configuration raised {type(e).__name__}: {e}", {**w, "error_type": type(e).__name__})
        B = with_file
        s = m["settings"]
        for k, want in s.items():
            got = getattr(B, k)
            if k == "prior_bounds" and want is not None:
                ok = got is not None and set(got) == set(want) and all(np.allclose(np.asarray(got[p], dtype=float), want[p]) for p in want)
            elif k in ("parameters", "periodic_parameters") and want is not None:
                ok = got is not None and list(got) == list(want)
            elif k == "flow_kwargs":
                ok = isinstance(got, dict) and set(got) == set(want) and all(got[q] == want[q] or np.isclose(float(got[q]), float(want[q])) if not isinstance(want[q], str) else got[q] == want[q] for q in want)
            else:
                ok = got == want or (want is None and got in (None, [])) or (isinstance(want, float) and got is not None and np.isclose(float(got), want))
            if not ok:
                raise Violation("c13.settings", f"rebuilt instance has {k}={got!r}, the one that wrote the file had {want!r}", {**w, "setting": k})
        gx = None if B.xp is None else ns_of(B.xp.asarray([0.0]))
        if gx != m["xp"]:
            raise Violation("c13.settings", f"rebuilt instance has namespace {gx}, the one that wrote the file had {m['xp']}", {**w, "setting": "xp"})
        wb = None if m["dtype"] is None else (32 if "32" in m["dtype"] else 64)
        gb = None if B.dtype is None else (32 if "32" in str(B.dtype) else 64)
        if wb != gb:
            raise Violation("c13.settings", f"rebuilt instance has dtype {B.dtype!r}, the one that wrote the file had {m['dtype']!r}", {**w, "setting": "dtype"})
        if getattr(B.flow, "fingerprint", None) != m["flow_fp"]:
            raise Violation("c13.flow", "rebuilt instance carries a different proposal than the one saved", w)
        self.col.nontrivial.add(("aspire", m["xp"], m["dtype"], s["prior_bounds"] is not None, s["periodic_parameters"] is not None))

    # ---------------------------------------------------------------- restart
    def op_restart(self):
        self.ops.append(("restart", {}))
        gc.collect()
        self.col.fault("restart")

    def op_load(self, which):
        if not self.model:
            return
        self.ops.append(("load", dict(which=which)))
        keys = sorted(self.model)
        key = keys[which % len(keys)]
        self._load_key(key)

    def _load_key(self, key):
        import aspire.samples as S

        m = self.model[key]
        if m["kind"] == "samples":
            w = {"kind": "samples", "cls": m["cls"], "xp": m["xp"], "bits": m["bits"], "flat": m.get("flat")}
            try:
                with self._file("r") as f:
                    obj = getattr(S, m["cls"]).load(f, path=key)
            except Exception as e:  # noqa: BLE001
                raise Violation("c13.load_raised", f"{m['cls']}.load of a set saved by {m['cls']}.save(flat={m.get('flat')}) raised {type(e).__name__}: {e}",
                                {**w, "error_type": type(e).__name__})
            self._check_samples(obj, m, f"{m['cls']}.load")
        elif m["kind"] in ("flow_history", "smc_history"):
            self._check_history(key, m)
        elif m["kind"] == "transform":
            self._check_transform(key, m)
        elif m["kind"] == "dict":
            self._check_dict(key, m)
        elif m["kind"] == "aspire":
            self._check_aspire(key, m)

    def finish(self):
        # everything that was stored must still reload unchanged at the end
        for key in sorted(self.model):
            self._load_key(key)

    def close(self):
        self.model = {}


def xp_name_or_none(xp):
    if xp is None:
        return None
    return ns_of(xp.asarray([0.0]))


def make_machine(interp_factory, workdir, col):
    xp_s = st.sampled_from(["numpy", "torch", "jax"])
    dt_s = st.sampled_from([None, "float32", "float64"])
    topts = st.fixed_dictionaries({"eps": st.sampled_from([1e-6, 1e-4]), "periodic": st.booleans(), "bounded": st.booleans(),
                                   "bounded_transform": st.sampled_from(["logit", "probit"]), "affine": st.booleans()})
    aopts = st.fixed_dictionaries({"eps": st.sampled_from([1e-6, 1e-4]), "periodic": st.booleans(), "bounded": st.booleans(), "bounds": st.booleans(),
                                   "bounded_transform": st.sampled_from(["logit", "probit"]), "xp_given": st.booleans()})

    class C13Machine(MachineMixin, RuleBasedStateMachine):
        def __init__(self):
            super().__init__()
            self.it = interp_factory(workdir, col)

        @rule(cls=st.sampled_from(["BaseSamples", "Samples", "SMCSamples"]), xp=xp_s, dtype=dt_s, fields=st.tuples(st.booleans(), st.booleans(), st.booleans()),
              flat=st.booleans(), n=st.integers(2, 7), d=st.integers(1, 3), seed=st.integers(0, 999), named=st.booleans())
        def save_samples(self, cls, xp, dtype, fields, flat, n, d, seed, named):
            self.do("save_samples", cls=cls, xp=xp, dtype=dtype, fields=list(fields), flat=flat, n=n, d=d, seed=seed, named=named)

        @rule(kind=st.sampled_from(["flow", "smc", "smc"]), xp=xp_s, dtype=dt_s, n_iter=st.one_of(st.integers(1, 4), st.integers(1, 4), st.integers(9, 13)), seed=st.integers(0, 999), with_pops=st.booleans())
        def save_history(self, kind, xp, dtype, n_iter, seed, with_pops):
            self.do("save_history", kind=kind, xp=xp, dtype=dtype, n_iter=n_iter, seed=seed, with_pops=with_pops)

        @rule(cls=st.sampled_from(TRANSFORMS), xp=xp_s, dtype=dt_s, opts=topts, seed=st.integers(0, 999), fitted=st.booleans())
        def save_transform(self, cls, xp, dtype, opts, seed, fitted):
            self.do("save_transform", cls=cls, xp=xp, dtype=dtype, opts=opts, seed=seed, fitted=fitted)

        @rule(seed=st.integers(0, 999), shape=st.integers(0, (1 << 13) - 1))
        def save_dict(self, seed, shape):
            self.do("save_dict", seed=seed, shape=shape)

        @rule(xp=xp_s, dtype=dt_s, opts=aopts, seed=st.integers(0, 999))
        def save_aspire(self, xp, dtype, opts, seed):
            self.do("save_aspire", xp=xp, dtype=dtype, opts=opts, seed=seed)

        @rule()
        def restart(self):
            self.do("restart", )

        @rule(which=st.integers(0, 50))
        def load(self, which):
            self.do("load", which=which)

        def teardown(self):
            self.finish_example(col)

    return C13Machine
