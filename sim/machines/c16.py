"""C16 machine: select / concatenate / pickle / dict-convert on sample sets vs a plain-array model."""

from __future__ import annotations

import pickle

import numpy as np
from hypothesis import strategies as st
from hypothesis.stateful import RuleBasedStateMachine, initialize, precondition, rule

from ..core import rng_from, to_np
from ..runner import xp_of
from .base import MachineMixin, Violation

POOL = 5
CLASSES = ("BaseSamples", "Samples", "SMCSamples")


def ns_of(a):
    m = type(a).__module__
    return "torch" if m.startswith("torch") else ("jax" if m.startswith("jax") else "numpy")


def bits_of(a):
    return 32 if "32" in str(a.dtype) else 64


class Interp:
    def __init__(self, workdir, col):
        self.col = col
        self.ops = []
        self.pool = []  # list of (obj, model)

    # ------------------------------------------------------------------ model
    @staticmethod
    def _cls(name):
        import aspire.samples as S

        return getattr(S, name)

    def _put(self, obj, model):
        if len(self.pool) >= POOL:
            self.pool.pop(0)
        self.pool.append((obj, model))

    def _compare(self, obj, m, what):
        w = {"cls": m["cls"], "xp": m["xp"], "bits": m["bits"], "op": what, "fields": "".join(k[4] if k.startswith("log_") else k[0] for k in ("log_likelihood", "log_prior", "log_q") if m[k] is not None)}
        if type(obj).__name__ != m["cls"]:
            raise Violation("c16.class", f"{what}: result is a {type(obj).__name__}, expected {m['cls']}", w)
        x = to_np(obj.x)
        if ns_of(obj.x) != m["xp"]:
            raise Violation("c16.namespace", f"{what}: x lives in {ns_of(obj.x)}, expected {m['xp']}", w)
        if bits_of(obj.x) != m["bits"]:
            raise Violation("c16.dtype", f"{what}: x is float{bits_of(obj.x)}, expected float{m['bits']}", w)
        if x.shape != m["x"].shape or not np.array_equal(x, m["x"], equal_nan=True):
            raise Violation("c16.rows", f"{what}: x differs from the plain-array model (shape {x.shape} vs {m['x'].shape})", {**w, "field": "x"})
        for k in ("log_likelihood", "log_prior", "log_q"):
            v = getattr(obj, k, None)
            if (v is None) != (m[k] is None):
                raise Violation("c16.field_presence", f"{what}: optional field {k} is {'missing' if v is None else 'unexpectedly present'}", {**w, "field": k})
            if v is not None:
                a = to_np(v)
                if a.shape != m[k].shape or not np.array_equal(a, m[k], equal_nan=True):
                    raise Violation("c16.rows", f"{what}: field {k} is not the same selection of rows as x (plain-array model disagrees)", {**w, "field": k})
                if ns_of(v) != m["xp"] or bits_of(v) != m["bits"]:
                    raise Violation("c16.dtype", f"{what}: field {k} is {ns_of(v)} float{bits_of(v)}, expected {m['xp']} float{m['bits']}", {**w, "field": k})
        if list(obj.parameters) != list(m["parameters"]):
            raise Violation("c16.parameters", f"{what}: parameters {obj.parameters} != {m['parameters']}", w)
        if m["cls"] == "Samples" and m["log_w"] is not None:
            lw = getattr(obj, "log_w", None)
            if lw is None:
                raise Violation("c16.weights", f"{what}: weights are missing although all three log-densities are present", w)
            a = np.asarray(to_np(lw), dtype=np.float64)
            tol = dict(rtol=1e-5, atol=1e-5) if min(m["bits"], m.get("value_bits", m["bits"])) == 32 else dict(rtol=1e-12, atol=1e-12)
            if a.shape != m["log_w"].shape or not np.allclose(a, m["log_w"], equal_nan=True, **tol):
                raise Violation("c16.weights", f"{what}: log_w is not the same selection as the rows (model disagrees)", {**w, "field": "log_w"})
            ww = np.asarray(to_np(obj.weights), dtype=np.float64)
            if ww.shape != a.shape or not np.allclose(ww, np.exp(m["log_w"]), equal_nan=True, **dict(rtol=max(tol["rtol"], 1e-6), atol=tol["atol"])):
                raise Violation("c16.weights", f"{what}: weights are not exp(log_w) of the selected rows", {**w, "field": "weights"})
        if m["cls"] in ("Samples", "SMCSamples") and m.get("check_evidence", True):
            for k in ("log_evidence", "log_evidence_error"):
                got = getattr(obj, k, None)
                want = m[k]
                if want is None:
                    continue
                g = None if got is None else float(to_np(got))
                if g is None or not np.isclose(g, want, rtol=1e-6, atol=1e-6):
                    raise Violation("c16.evidence_not_carried", f"{what}: attached {k}={want!r} came back as {g!r}", {**w, "field": k})
        if m["cls"] == "SMCSamples" and m.get("beta") is not None:
            if obj.beta is None or float(obj.beta) != m["beta"]:
                raise Violation("c16.beta", f"{what}: beta {obj.beta} != {m['beta']}", w)
        self.col.nontrivial.add((what.split(":")[0], m["cls"], m["xp"], m["bits"], w["fields"]))

    @staticmethod
    def _sel(m, idx, keep_evidence=True):
        out = dict(m)
        for k in ("x", "log_likelihood", "log_prior", "log_q", "log_w"):
            out[k] = None if m[k] is None else m[k][idx]
        if not keep_evidence:
            out["check_evidence"] = False
        return out

    # -------------------------------------------------------------------- ops
    def op_create(self, cls, xp, dtype, n, d, fields, evidence, seed):
        self.ops.append(("create", dict(cls=cls, xp=xp, dtype=dtype, n=n, d=d, fields=fields, evidence=evidence, seed=seed)))
        rng = rng_from(seed)
        XP = xp_of(xp)
        bits = 32 if (dtype == "float32" or (dtype is None and xp == "torch")) else 64
        npdt = np.float32 if bits == 32 else np.float64
        x = rng.normal(size=(n, d)).astype(npdt)
        arrs = {}
        for i, k in enumerate(("log_likelihood", "log_prior", "log_q")):
            arrs[k] = rng.normal(size=n).astype(npdt) if fields[i] else None
        kw = dict(x=XP.asarray(x), xp=XP, dtype=dtype, parameters=[f"p{i}" for i in range(d)])
        for k, v in arrs.items():
            if v is not None:
                kw[k] = XP.asarray(v)
        C = self._cls(cls)
        m = {"cls": cls, "xp": xp, "bits": bits, "x": x, **arrs, "parameters": kw["parameters"], "log_w": None,
             "log_evidence": None, "log_evidence_error": None, "beta": None}
        if cls == "SMCSamples":
            # the temperature of the initial population (exactly 0.0), an intermediate one, the final one (exactly 1.0)
            kw["beta"] = m["beta"] = (0.0, 0.25, 1.0)[seed % 3]
        if cls in ("Samples", "SMCSamples") and evidence:
            kw["log_evidence"] = -3.5
            kw["log_evidence_error"] = 0.125
        obj = C(**kw)
        if cls == "Samples" and all(arrs[k] is not None for k in arrs):
            m["log_w"] = (arrs["log_likelihood"].astype(np.float64) + arrs["log_prior"] - arrs["log_q"])
            # compute_weights sets the evidence from the weights when all three are given
            m["log_evidence"] = float(to_np(obj.log_evidence))
            m["log_evidence_error"] = float(to_np(obj.log_evidence_error))
        elif cls in ("Samples", "SMCSamples") and evidence:
            m["log_evidence"], m["log_evidence_error"] = -3.5, 0.125
        self._compare(obj, m, "create")
        self._put(obj, m)

    def _src(self, i):
        return self.pool[i % len(self.pool)]

    def op_select(self, src, kind, a, b, seed):
        if not self.pool:
            return
        self.ops.append(("select", dict(src=src, kind=kind, a=a, b=b, seed=seed)))
        obj, m = self._src(src)
        n = len(m["x"])
        if m["x"].ndim != 2 or n == 0:
            return
        rng = rng_from(seed)
        if kind == "slice":
            lo, hi = sorted((a % (n + 1), b % (n + 1)))
            if lo == hi:
                return
            idx = slice(lo, hi)
        elif kind == "step_slice":
            idx = slice(a % n, None, 1 + b % 3)
        elif kind == "neg_slice":
            if m["xp"] == "torch":
                return  # torch rejects negative steps by design
            # reversed selections with and without explicit bounds: s[::-k], s[hi:lo:-k], s[hi::-k], s[:lo:-k]
            step = -(1 + b % 3)
            form = seed % 4
            lo, hi = sorted((a % n, b % n))
            idx = [slice(None, None, step), slice(hi, lo, step), slice(hi, None, step), slice(None, lo, step)][form]
            if len(range(n)[idx]) == 0:
                return
        elif kind == "empty":
            # a selection that keeps no row at all (a mask nothing satisfies, an empty slice, an empty index array)
            form = seed % 3
            idx = [slice(a % n, a % n), np.zeros(n, dtype=bool), np.zeros(0, dtype=int)][form]
        elif kind == "mask":
            mask = rng.random(n) < 0.5
            if not mask.any():
                mask[a % n] = True
            idx = mask
        elif kind == "index_array":
            idx = rng.integers(0, n, size=1 + b % (2 * n))
        elif kind in ("mask_list", "index_list"):
            if m["xp"] == "jax":
                return  # jax rejects list indices by design
            if kind == "mask_list":
                mask = rng.random(n) < 0.5
                if not mask.any():
                    mask[a % n] = True
                idx = mask
            else:
                idx = rng.integers(0, n, size=1 + b % (2 * n))
        else:
            raise ValueError(kind)
        XP = xp_of(m["xp"])
        idx_in = idx
        if kind == "mask":
            idx_in = XP.asarray(mask) if m["xp"] != "numpy" and seed % 2 else mask
        elif kind in ("mask_list", "index_list"):
            idx_in = [bool(v) for v in idx] if kind == "mask_list" else [int(v) for v in idx]  # plain Python lists
        if kind == "empty":
            w = {"cls": m["cls"], "xp": m["xp"], "bits": m["bits"], "op": "select:empty", "form": ("slice", "mask", "index_array")[seed % 3],
                 "weighted": m["log_w"] is not None}
            try:
                out = obj[idx_in]
            except Exception as e:  # noqa: BLE001
                raise Violation("c16.empty_selection_raised", f"selecting no rows ({w['form']}) from a {m['cls']} ({m['xp']}, "
                                f"{'weighted' if w['weighted'] else 'not weighted'}) raised {type(e).__name__}: {e}", {**w, "error_type": type(e).__name__})
            mm = self._sel(m, idx)
            mm["check_evidence"] = m.get("check_evidence", True)
            self._compare(out, mm, "select:empty")
            return  # judged, not fed back into the pool
        out = obj[idx_in]
        mm = self._sel(m, idx)
        self._compare(out, mm, f"select:{kind}")
        self._put(out, mm)

    def op_concat_partition(self, src, cuts):
        if not self.pool:
            return
        self.ops.append(("concat_partition", dict(src=src, cuts=cuts)))
        obj, m = self._src(src)
        n = len(m["x"])
        if m["x"].ndim != 2 or n < 2:
            return
        pts = sorted({c % n for c in cuts} - {0})
        if not pts:
            return
        bounds = [0] + pts + [n]
        parts = [obj[slice(lo, hi)] for lo, hi in zip(bounds, bounds[1:])]
        C = self._cls(m["cls"])
        out = C.concatenate(parts)
        mm = dict(m)
        # the statement promises carried evidence for *selection*; after concatenate only rows and weights are compared
        mm["check_evidence"] = False
        if m["cls"] == "SMCSamples":
            mm["beta"] = None
        self._compare(out, mm, "concatenate")
        self.col.probe("partition_pieces", len(parts))

    def op_concat_mixed(self, a, b):
        """Concatenate two sets of the same class / namespace / width that differ in optional fields: every per-sample
        field of the result must be either absent or aligned with the rows (never shorter / shifted)."""
        if len(self.pool) < 2:
            return
        self.ops.append(("concat_mixed", dict(a=a, b=b)))
        (oa, ma), (ob, mb) = self._src(a), self._src(b)
        if oa is ob or ma["x"].ndim != 2 or mb["x"].ndim != 2:
            return
        if (ma["cls"], ma["xp"], ma["bits"], ma["x"].shape[1]) != (mb["cls"], mb["xp"], mb["bits"], mb["x"].shape[1]):
            return
        if str(oa.dtype) != str(ob.dtype) or list(oa.parameters) != list(ob.parameters):
            return
        C = self._cls(ma["cls"])
        w = {"cls": ma["cls"], "xp": ma["xp"], "op": "concat_mixed"}
        try:
            out = C.concatenate([oa, ob])
        except Exception as e:  # noqa: BLE001
            raise Violation("c16.concat_raised", f"{ma['cls']}.concatenate of two compatible sets with different optional fields raised "
                            f"{type(e).__name__}: {e}", {**w, "error_type": type(e).__name__})
        n = len(ma["x"]) + len(mb["x"])
        x = to_np(out.x)
        if x.shape[0] != n or not np.array_equal(x, np.concatenate([ma["x"], mb["x"]]), equal_nan=True):
            raise Violation("c16.rows", "concat_mixed: x is not the two inputs stacked", {**w, "field": "x"})
        for k in ("log_likelihood", "log_prior", "log_q"):
            v = getattr(out, k, None)
            both = ma[k] is not None and mb[k] is not None
            if v is None:
                if both:
                    raise Violation("c16.field_presence", f"concat_mixed: field {k} present in both inputs was dropped", {**w, "field": k})
                continue
            a_ = to_np(v)
            if a_.shape[0] != n:
                raise Violation("c16.rows", f"concat_mixed: field {k} has {a_.shape[0]} entries for {n} rows (present in "
                                f"{'both' if both else 'only one'} of the inputs): rows and field are no longer aligned", {**w, "field": k})
            if both and not np.array_equal(a_, np.concatenate([ma[k], mb[k]]), equal_nan=True):
                raise Violation("c16.rows", f"concat_mixed: field {k} is not the two inputs' fields stacked", {**w, "field": k})
        self.col.nontrivial.add(("concat_mixed", ma["cls"], ma["xp"], ma["bits"], "".join(str(int(ma[k] is not None)) + str(int(mb[k] is not None)) for k in ("log_likelihood", "log_prior", "log_q"))))

    def op_pickle(self, src, protocol):
        if not self.pool:
            return
        self.ops.append(("pickle", dict(src=src, protocol=protocol)))
        obj, m = self._src(src)
        out = pickle.loads(pickle.dumps(obj, protocol=protocol))
        self._compare(out, m, "pickle")
        self._put(out, m)

    def op_dict_roundtrip(self, src, flat):
        if not self.pool:
            return
        self.ops.append(("dict_roundtrip", dict(src=src, flat=flat)))
        obj, m = self._src(src)
        if m["x"].ndim != 2:
            return
        C = self._cls(m["cls"])
        try:
            out = C.from_dict(obj.to_dict(flat=flat))
        except Exception as e:  # noqa: BLE001
            raise Violation("c16.dict_roundtrip_raised", f"{m['cls']}.from_dict(obj.to_dict(flat={flat})) raised {type(e).__name__}: {e}",
                            {"cls": m["cls"], "xp": m["xp"], "flat": flat, "error_type": type(e).__name__})
        self._compare(out, m, "dict")
        self._put(out, m)

    def finish(self):
        pass

    def close(self):
        self.pool = []


def make_machine(interp_factory, workdir, col):
    class C16Machine(MachineMixin, RuleBasedStateMachine):
        def __init__(self):
            super().__init__()
            self.it = interp_factory(workdir, col)

        @rule(cls=st.sampled_from(CLASSES), xp=st.sampled_from(["numpy", "torch", "jax"]), dtype=st.sampled_from([None, "float32", "float64"]),
              n=st.integers(2, 9), d=st.integers(1, 3), fields=st.tuples(st.booleans(), st.booleans(), st.booleans()),
              evidence=st.booleans(), seed=st.integers(0, 1000))
        def create(self, cls, xp, dtype, n, d, fields, evidence, seed):
            self.do("create", cls=cls, xp=xp, dtype=dtype, n=n, d=d, fields=list(fields), evidence=evidence, seed=seed)

        @rule(src=st.integers(0, 20), kind=st.sampled_from(["slice", "step_slice", "neg_slice", "mask", "index_array", "mask_list", "index_list", "empty"]), a=st.integers(0, 20), b=st.integers(0, 20), seed=st.integers(0, 1000))
        def select(self, src, kind, a, b, seed):
            self.do("select", src=src, kind=kind, a=a, b=b, seed=seed)

        @rule(src=st.integers(0, 20), cuts=st.lists(st.integers(0, 20), min_size=1, max_size=3))
        def concat_partition(self, src, cuts):
            self.do("concat_partition", src=src, cuts=cuts)

        @rule(a=st.integers(0, 20), b=st.integers(0, 20))
        def concat_mixed(self, a, b):
            self.do("concat_mixed", a=a, b=b)

        @rule(src=st.integers(0, 20), protocol=st.sampled_from([2, 4, 5]))
        def pickle_hop(self, src, protocol):
            self.do("pickle", src=src, protocol=protocol)

        @rule(src=st.integers(0, 20), flat=st.booleans())
        def dict_roundtrip(self, src, flat):
            self.do("dict_roundtrip", src=src, flat=flat)

        def teardown(self):
            self.finish_example(col)

    return C16Machine
