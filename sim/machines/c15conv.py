"""C15 machine: direct namespace conversions (to_namespace / to_numpy) composed with the C16 operations.

The C16 interpreter already shadows every sample set in a pool with a plain dict-of-numpy-arrays model; here one more
operation converts a set to another array namespace (every ordered pair, every class, every optional-field subset, both
widths) and the converted set must still equal the model: same class, same values, same optional fields, same parameters,
same temperature / attached evidence, the TARGET namespace and the SAME floating-point width.  Converted sets go back into
the pool, so conversions compose with selections, concatenations, pickling and dictionary round trips (and with each other:
A -> B -> C chains).  Only the conversion step is judged here (oracle ids c15.convert_*); what the other operations do is C16's
matter and is not reported by this machine.
"""

from __future__ import annotations

from hypothesis import strategies as st
from hypothesis.stateful import rule

from ..runner import xp_of
from . import c16 as base
from .base import MachineMixin, Violation


class Interp(base.Interp):
    def _quiet(self, fn, *a, **kw):
        """Run a C16 operation without judging it (a disagreement there is C16's verdict): on a Violation the pool is reset."""
        try:
            return fn(*a, **kw)
        except Violation:
            self.pool = []

    def op_create(self, **kw):
        return self._quiet(super().op_create, **kw)

    def op_select(self, **kw):
        return self._quiet(super().op_select, **kw)

    def op_concat_partition(self, **kw):
        return self._quiet(super().op_concat_partition, **kw)

    def op_concat_mixed(self, **kw):
        return self._quiet(super().op_concat_mixed, **kw)

    def op_pickle(self, **kw):
        return self._quiet(super().op_pickle, **kw)

    def op_dict_roundtrip(self, **kw):
        return self._quiet(super().op_dict_roundtrip, **kw)

    def op_convert(self, src, to, via, dtype=None):
        target = to
        if not self.pool:
            return
        self.ops.append(("convert", dict(src=src, to=to, via=via, **({"dtype": dtype} if dtype else {}))))
        obj, m = self._src(src)
        if m["x"].ndim != 2:
            return
        if via == "to_numpy":
            target = "numpy"
        w = {"cls": m["cls"], "from": m["xp"], "to": target, "bits": m["bits"], "via": via,
             "fields": "".join(k[4] for k in ("log_likelihood", "log_prior", "log_q") if m[k] is not None)}
        if dtype:
            # only where the conversion method offers the option (BaseSamples does; the Samples / SMCSamples overrides take no
            # dtype -- an API difference, not something C15 speaks about): elsewhere the plain conversion is made
            import inspect

            meth = obj.to_numpy if via == "to_numpy" else obj.to_namespace
            if "dtype" not in inspect.signature(meth).parameters:
                dtype = None
        kw = {"dtype": dtype} if dtype else {}
        if dtype:
            # a width asked for in the conversion call itself is "a precision requested by the user"
            w["requested"] = dtype
        try:
            out = obj.to_numpy(**kw) if via == "to_numpy" else obj.to_namespace(xp_of(target), **kw)
        except Exception as e:  # noqa: BLE001 -- the statement promises that every ordered pair succeeds
            raise Violation("c15.convert_raised", f"{m['cls']} ({m['xp']} float{m['bits']}) .{via}({'' if via == 'to_numpy' else target}) raised "
                            f"{type(e).__name__}: {e}", {**w, "error_type": type(e).__name__})
        mm = dict(m)
        mm["xp"] = target
        if dtype:
            import numpy as np

            mm["bits"] = 32 if dtype == "float32" else 64
            npdt = np.float32 if mm["bits"] == 32 else np.float64
            for k in ("x", "log_likelihood", "log_prior", "log_q"):
                if mm[k] is not None:
                    mm[k] = mm[k].astype(npdt)
            # weights were computed at the width the set had when it was weighted: judge them at the narrowest width so far
            mm["value_bits"] = min(m.get("value_bits", m["bits"]), mm["bits"])
        try:
            self._compare(out, mm, f"convert:{m['xp']}->{target}")
        except Violation as v:
            suffix = v.oracle.split(".", 1)[1]
            raise Violation("c15.convert_" + suffix, f"{m['cls']} {m['xp']} float{m['bits']} -> {target} ({via}{', dtype=' + dtype if dtype else ''}): " + v.message,
                            {**w, **{k: v_ for k, v_ in (v.where or {}).items() if k == "field"}})
        self.col.nontrivial.add(("convert", m["cls"], m["xp"], target, m["bits"], w["fields"], via, dtype))
        if dtype:
            self.col.probe("conversion_with_requested_width")
        self._put(out, mm)


def make_machine(interp_factory, workdir, col):
    Base = base.make_machine(interp_factory, workdir, col)

    class C15ConvMachine(Base):
        @rule(src=st.integers(0, 20), to=st.sampled_from(["numpy", "torch", "jax"]), via=st.sampled_from(["to_namespace", "to_namespace", "to_numpy"]),
              dtype=st.sampled_from([None, None, None, "float32", "float64"]))
        def convert(self, src, to, via, dtype):
            self.do("convert", src=src, to=to, via=via, dtype=dtype)

    return C15ConvMachine
