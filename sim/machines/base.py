"""Operation engine: Hypothesis stateful machines over plain interpreters.

Every machine is split in two: an *interpreter* (plain Python object whose
methods are the operations; it owns the reference model and raises
``Violation`` when the system and the model disagree) and a thin Hypothesis
``RuleBasedStateMachine`` that only draws arguments and records
``(op, kwargs)``.  A replay file is the recorded op list; replaying it runs the
interpreter directly, without Hypothesis.
"""

from __future__ import annotations

import traceback

from ..core import digest_of, jsonable


class Violation(Exception):
    def __init__(self, oracle, message, where=None, **detail):
        super().__init__(message)
        self.oracle = oracle
        self.message = message
        self.where = where or {}
        self.detail = detail


class Collector:
    """Per-case statistics filled by the interpreters."""

    def __init__(self):
        self.examples = 0
        self.steps = 0
        self.seqs = set()
        self.nontrivial = set()
        self.probes = {}
        self.faults = {}
        self.sample = None
        self.last_ops = None

    def probe(self, k, n=1):
        self.probes[k] = self.probes.get(k, 0) + n

    def fault(self, k, n=1):
        self.faults[k] = self.faults.get(k, 0) + n


def replay_ops(interp_factory, ops, workdir, collector=None):
    """Run a recorded op list on a fresh interpreter. Returns violation dict or None."""
    it = interp_factory(workdir, collector or Collector())
    try:
        try:
            for op, kw in ops:
                getattr(it, "op_" + op)(**kw)
            it.finish()
        except Violation as v:
            return {"oracle": v.oracle, "message": v.message, "where": jsonable(v.where), "detail": jsonable(v.detail)}
    finally:
        it.close()
    return None


def run_machine(machine_cls_factory, interp_factory, hseed, max_examples, step_count, workdir):
    """Run one seeded Hypothesis search. Returns (collector, violation|None, ops|None)."""
    from hypothesis import HealthCheck, Phase, seed, settings
    from hypothesis.stateful import run_state_machine_as_test

    col = Collector()
    Machine = machine_cls_factory(interp_factory, workdir, col)
    st = settings(
        max_examples=max_examples,
        stateful_step_count=step_count,
        database=None,
        deadline=None,
        report_multiple_bugs=False,
        suppress_health_check=list(HealthCheck),
        phases=[Phase.generate, Phase.shrink],
        derandomize=False,
        print_blob=False,
    )
    try:
        run_state_machine_as_test(seed(hseed)(Machine), settings=st)
    except Violation as v:
        ops = col.last_ops
        # canonical verdict = what the recorded (minimal) op list does when replayed on a fresh interpreter
        v2 = replay_ops(interp_factory, ops, workdir) if ops is not None else None
        if v2 is None:
            raise RuntimeError(f"operation list recorded for a failing example does not fail on replay: {v.oracle}: {v.message} ops={ops}")
        return col, v2, ops
    return col, None, None


def machine_case_outcome(col, v, ops, case, extra_sample=None):
    out = {
        "violations": [v] if v else [],
        "evaluations": max(col.examples, 1),
        "events": col.steps,
        "probes": dict(col.probes),
        "faults_fired": dict(col.faults),
        "nontrivial_keys": [list(k) if isinstance(k, tuple) else k for k in sorted(col.nontrivial, key=str)],
        "digest": digest_of([sorted(col.seqs), v["oracle"] if v else None, ops]),
        "sample": jsonable(extra_sample if extra_sample is not None else col.sample),
        "distinct_sequences": len(col.seqs),
    }
    if v and ops is not None:
        out["minimal_ops"] = jsonable(ops)
    return out


class MachineMixin:
    """Shared rule plumbing: run an interpreter op, remember whether it failed."""

    failed = False

    def do(self, name, **kw):
        try:
            getattr(self.it, "op_" + name)(**kw)
        except BaseException:
            self.failed = True
            raise

    def finish_example(self, col, sample_len=4):
        col.last_ops = list(self.it.ops)
        try:
            if not self.failed:
                self.it.finish()
                col.examples += 1
                col.steps += len(self.it.ops)
                col.seqs.add(tuple(op for op, _ in self.it.ops))
                if col.sample is None and len(self.it.ops) >= sample_len:
                    col.sample = {"ops": self.it.ops[:8]}
        finally:
            self.it.close()
