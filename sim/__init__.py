"""Deterministic simulator for mj-will/aspire.

Importing this package prepares the *simulator process*: single-threaded
numerics, the fake kernel packages (minipcn / orng / emcee) and the stub
proposal's entry point on ``sys.path``.  Nothing here touches /repo.
"""

import os
import sys

_HERE = os.path.dirname(os.path.abspath(__file__))
ROOT = os.path.dirname(_HERE)

for _k, _v in (
    ("OMP_NUM_THREADS", "1"),
    ("MKL_NUM_THREADS", "1"),
    ("OPENBLAS_NUM_THREADS", "1"),
    ("NUMEXPR_NUM_THREADS", "1"),
    ("XLA_FLAGS", "--xla_cpu_multi_thread_eigen=false intra_op_parallelism_threads=1"),
    ("JAX_PLATFORMS", "cpu"),
    ("TQDM_DISABLE", "1"),
    # aspire sets this at import (and the repo's conftest does); scipy only honours it if it is set BEFORE scipy is first
    # imported, so without this line whether scipy.special dispatches through the array API depended on import order and
    # on what a parent process had imported (observed: ulp-level differences in jax runs between processes)
    ("SCIPY_ARRAY_API", "1"),
    ("MPLBACKEND", "Agg"),
):
    os.environ.setdefault(_k, _v)

for _p in (os.path.join(_HERE, "stubs"), os.path.join(_HERE, "fakes"), ROOT):
    if _p not in sys.path:
        sys.path.insert(0, _p)

GUARD = "ASPIRE_VERIF"  # reserved name of the (unused) hook guard

import warnings as _w

_w.filterwarnings("ignore")


_PINNED = False


def pin_to_one_cpu():
    """Pin this simulator process to a single CPU before torch / jax create their thread pools.

    XLA's CPU client sizes its intra-op pool from the schedulable CPUs; with several threads some reductions came out
    different in the last bits from run to run (observed: ESS 9.960000289427702 vs ...711), which breaks "one seed is
    one exactly repeatable execution".  One core per process makes every numeric library single-threaded for good and
    also stops 16 workers from oversubscribing the box.  The check's parent process is never pinned (children inherit
    the mask)."""
    global _PINNED
    if _PINNED or not hasattr(os, "sched_setaffinity"):
        return
    try:
        cpus = sorted(os.sched_getaffinity(0))
        if len(cpus) > 1:
            os.sched_setaffinity(0, {cpus[os.getpid() % len(cpus)]})
        _PINNED = True
    except OSError:
        pass
