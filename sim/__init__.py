"""Deterministic simulator for mj-will/aspire.

Importing this package prepares the *simulator process*: single-threaded
numerics, the fake kernel packages (minipcn / orng / emcee) and the stub
proposal's entry point on ``sys.path``.  Nothing here touches /repo.
"""

import os
import sys

_HERE = os.path.dirname(os.path.abspath(__file__))
ROOT = os.path.dirname(_HERE)

for _k, _v in (
    ("OMP_NUM_THREADS", "1"),
    ("MKL_NUM_THREADS", "1"),
    ("OPENBLAS_NUM_THREADS", "1"),
    ("NUMEXPR_NUM_THREADS", "1"),
    ("XLA_FLAGS", "--xla_cpu_multi_thread_eigen=false intra_op_parallelism_threads=1"),
    ("JAX_PLATFORMS", "cpu"),
    ("TQDM_DISABLE", "1"),
    ("MPLBACKEND", "Agg"),
):
    os.environ.setdefault(_k, _v)

for _p in (os.path.join(_HERE, "stubs"), os.path.join(_HERE, "fakes"), ROOT):
    if _p not in sys.path:
        sys.path.insert(0, _p)

GUARD = "ASPIRE_VERIF"  # reserved name of the (unused) hook guard

import warnings as _w

_w.filterwarnings("ignore")
