#!/venv/bin/python
"""Regenerate the two generated tables of DESIGN.md in place (seeded changes, section 10.2; coverage of one quick pass, section 10.3)."""
import subprocess
p = '/verif/DESIGN.md'
s = open(p).read()
t = subprocess.run(['/venv/bin/python', '/verif/tools/seeded_table.py'], capture_output=True, text=True).stdout.strip()
a = s.index('<!-- SEEDED_TABLE_BEGIN -->') + len('<!-- SEEDED_TABLE_BEGIN -->'); b = s.index('<!-- SEEDED_TABLE_END -->')
s = s[:a] + '\n' + t + '\n' + s[b:]
t2 = subprocess.run(['/venv/bin/python', '/verif/tools/coverage_table.py'], capture_output=True, text=True).stdout.strip()
if '| check |' in t2:
    t2 = t2[t2.index('| check |'):]
    a = s.index('<!-- COVERAGE_TABLE_BEGIN -->') + len('<!-- COVERAGE_TABLE_BEGIN -->'); b = s.index('<!-- COVERAGE_TABLE_END -->')
    s = s[:a] + '\n' + t2 + '\n' + s[b:]
open(p, 'w').write(s)
print(len(t.splitlines()), len(t2.splitlines()))
