#!/venv/bin/python
"""Regenerate the table of DESIGN.md section 10.3 from /verif/evidence/*.json (between the COVERAGE_TABLE markers)."""
import glob, json, os, re
ROOT = os.path.dirname(os.path.dirname(os.path.abspath(__file__)))
rows = ["| check | cases | evaluations | distinct non-trivial | seam events | SMC iterations | wall s | evaluations/h | faults fired (top 5) |", "|---|---|---|---|---|---|---|---|---|"]
for f in sorted(glob.glob(os.path.join(ROOT, "evidence", "C*.json"))):
    e = json.load(open(f)); c = e["coverage"]
    ff = sorted((c.get("faults_fired") or {}).items(), key=lambda kv: -kv[1])[:5]
    rows.append("| {} | {} | {} | {} | {} | {} | {} | {} | {} |".format(
        e["property_id"], c.get("cases"), c.get("evaluations"), c.get("distinct_nontrivial"), c.get("seam_events_simulated"),
        c.get("smc_iterations_simulated"), int(round(e.get("wall_s", 0))), int(c.get("runs_per_hour") or 0),
        ", ".join(f"{k} {v}" for k, v in ff) or "-"))
tab = "\n".join(rows)
p = os.path.join(ROOT, "DESIGN.md")
s = open(p).read()
if "<!-- COVERAGE_TABLE_BEGIN -->" in s:
    s = re.sub(r"<!-- COVERAGE_TABLE_BEGIN -->.*<!-- COVERAGE_TABLE_END -->", "<!-- COVERAGE_TABLE_BEGIN -->\n" + tab.replace("\\", "\\\\") + "\n<!-- COVERAGE_TABLE_END -->", s, flags=re.S)
    open(p, "w").write(s)
print(tab)
