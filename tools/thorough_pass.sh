#!/bin/bash
# usage: tools/thorough_pass.sh [budget_seconds_per_check] [seed]
cd "$(dirname "$0")/.."
budget=${1:-}
seed=${2:-0}
mkdir -p /tmp/aspire-thorough
bad=0
for c in C01 C03 C05 C06 C07 C08 C09 C10 C11 C12 C13 C14 C15 C16 C17 C18 C19 C20; do
  out=/tmp/aspire-thorough/$c-$seed.log
  if [ -n "$budget" ]; then export VERIF_BUDGET_S=$budget; fi
  VERIF_SEED=$seed PYTHONPATH=$PWD timeout 3300 /venv/bin/python -m sim.cli check $c --tier thorough > $out 2>&1
  rc=$?
  echo "thorough seed=$seed check=$c rc=$rc $(grep '^property=' $out | tail -1)"
  if [ $rc -ne 0 ]; then bad=$((bad+1)); grep -E "VIOLATION|HARNESS|oracle=" $out | head -6; fi
done
echo "THOROUGH PASS DONE non-zero exits: $bad"
