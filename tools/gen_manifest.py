#!/venv/bin/python
"""Regenerate /verif/MANIFEST.json from the table below (kept by hand)."""
import json, os, sys
ROOT = os.path.dirname(os.path.dirname(os.path.abspath(__file__)))

# additions made after the fourth / fifth seeded rounds (appended to the level texts above)
EXTRA = {
 "C05": " BlackJAXSMC (its own copy of the target, evaluated under vmap/scan) runs through a jax-written random-walk stand-in for the absent blackjax with a jax-traceable twin of the model and proposal: every start position and every (z, value) the kernel evaluates is exported through jax.debug.callback, the finished kernel's function is probed eagerly before the next refit, and all points are judged by the same closed-form oracle.",
 "C08": " The returned evidence is also recomputed by definition from the stored populations and their own temperatures (independent of the recorded series), on reference and resumed runs incl. the live-dictionary route; a few BlackJAXSMC runs (stand-in blackjax) get the same oracles. A fifth of the scenarios carry a large common log-likelihood constant (-2800 ... +4000): nothing but the evidence itself may depend on it. One sampler object / one Aspire instance serving two fresh runs; evidence by definition summed from the LAST stored population at temperature 0.",
 "C09": " The generator seam also records how each draw was requested: draws must be with replacement, in every run and in the adversarial resamples (incl. fewer draws than particles). Some scenarios carry a large common log-likelihood constant (the probability vector must not change).",
 "C10": " A few BlackJAXSMC runs (stand-in blackjax) are recomputed the same way. The set handed back by Samples.rejection_sample after importance runs is recomputed too. Integer-literal bounds, flow preconditioning (stub back-end) and float32 runs whose prior returns float64 values with a finite sentinel outside the support are part of the swarm. A fifth of the cases sample inside enable_pool (likelihood only, or the prior too). After every run the set Aspire.convert_to_samples builds from bare coordinates is judged as well (it raises on the unchanged tree: counted, DESIGN 7.3).",
 "C13": " A third of the saved histories hold 10-14 populations (ordering of numbered groups). Real-flow round trips in 1-5 dimensions.",
 "C14": " Sampling and resume-from-file-then-sample also use the OTHER SMC sampler (emcee SMC), named at resume_from_file or at sample_posterior; the verdict carries the history (crashed? on a resumed instance?) so that the one known finding is matched narrowly. Besides the seeded search every two-run history over a small alphabet is enumerated (288 directed sequences: context or explicit path x either SMC sampler x refit none / plain / overwrite-with-path x rebuilt by resume_from_file or not x second run smc / emcee_smc / importance x fresh or spelt resume_from=None x completed or interrupted at likelihood call 0 / 2 / 4). 84 further directed sequences refit ON the instance resume_from_file built before its next run.",
 "C16": " Selectors include negative-step slices with and without bounds (numpy, jax). Selections that keep no row (empty slice, all-false mask, empty index array) are judged too (found and led to the repair of a genuine defect).",
 "C18": " A few BlackJAXSMC runs (stand-in blackjax) get the same history oracle. Some scenarios carry a large common log-likelihood constant. Every stored population must have the loop's particle number; a resumed record must still hold, unchanged, every population the checkpoint already held; the final forced checkpoint is one of the states resumed from.",
 "C19": " Context managers are also built first and entered later (two handlers made up front, then nested) and a close_pool=False handler is entered a second time: 'on entry' is the with-statement, not the constructor. A pool whose own close() or join() raises is one more exit path: restoration is still demanded and the enclosing contexts unwind with the new exception.",
 "C20": " BlackJAXSMC (stand-in blackjax) is run twice with the same jax key and generator seed (bit-identical) and once with another key (must differ). Real flows also in 3 dimensions; a supplied generator-like object that is not a numpy Generator must be used as well. Samples.rejection_sample(rng=...) after an importance run: the supplied generator (numpy Generator or a generator-like object) must be the one drawn from, no unseeded generator may be created, same seed -> same rows, other seeds -> other rows when the weights leave room.",
 "C03": " Flows are built in 1-4 dimensions (above 2 flowjax carries key-dependent permutation layers that a save/load cycle must keep). The flow is also built by Aspire itself (init_flow) for a problem with a periodic parameter whose data sit on the wrap point. Aspire-built flows are also drawn from through Aspire.sample_flow (eighth round; found and led to the repair of a genuine defect).",
 "C06": " A share of the swarm runs the emcee-driven SMC variant and a few cases BlackJAXSMC (stand-in blackjax): both forward the schedule options to the shared loop themselves; one sampler object also serves two sample() calls with different options.",
 "C07": " The emcee-driven variant (much of it with a non-linear ramp) and BlackJAXSMC (stand-in blackjax) are judged by the same bisection oracle.",
 "C11": " For every other durable state the live-dictionary route first runs a continuation that is interrupted before its next checkpoint and then resumes AGAIN from the dictionary the caller still holds (found and led to the repair of a genuine defect). Real-flow scenarios in 2 and 3 dimensions. preconditioning='flow' in the crash loop: with the real zuko back-end (one case quick, six thorough) and with the stub back-end in the generic swarm (the stub is trainable-like: a refit starts from its current state). 'The process dies after the final checkpoint was delivered' is one more durable state of every scenario; a sixth route hands the sampling arguments over through resume_from_file(resume_kwargs=...). BlackJAXSMC (stand-in random-walk blackjax) is in the crash loop since the eighth round: crashed at eager likelihood calls (one drawn call per case in quick, every call in thorough), resumed from the last payload the callback received with the same key and generator seed; its first run found that the jax key was not checkpointed (repaired). A seventh route resumes from the same bytes written to a plain .pkl file, named by its path.",
 "C12": " A quarter of the context scenarios do fit() inside the same auto_checkpoint context, another quarter make an earlier sampling call in it; 'loadable by the documented route' is executed for real (resume_from_file, then sample_posterior() with no arguments, on a scratch copy of the file) once per distinct durable state. Two sampler-level runs of one fixed schedule into one file with a cadence longer than the run (same pickled length, other content); the file is also compared with what the sampler acknowledged last, independently of the storage seam. The second-crash stage also continues through resume_from_file(resume_kwargs={... checkpoint_every ...}). An eighth of the crash-loop cases run the emcee-driven SMC variant. The proposal in the file must reproduce the log_q of the stored checkpoint's particles (c12.stale_proposal); a share of the context scenarios refit between two calls in one context.",
 "C17": " BlackJAXSMC's own call sites run too (stand-in blackjax): the jax twin of the model checks that a log-prior is attached at trace time and, through jax.debug.callback, that it is the prior of exactly the points the compiled kernel evaluates. Pool cases pass parallelize_prior on.",
 "C15": " Direct conversions are explored too: a seeded stateful machine over a pool of sample sets (every class x namespace x width x optional-field subset), each shadowed by a plain-array model, in which to_namespace(T) for every ordered pair and to_numpy() compose with select / concatenate / pickle / dict round trips and with each other; every converted set must equal the model incl. class, temperature, attached evidence, target namespace and the same float width (found three genuine defects, repaired). The conversion operation also asks for a width in the call itself where the method offers the option (BaseSamples.to_namespace / to_numpy with dtype=).",
}


def cmd(pid, tier):
    return f"cd /verif && timeout 3300 /venv/bin/python -m sim.cli check {pid} --tier {tier}"

CHECKS = {
 "C06": dict(level="exploration", ref="DESIGN.md section 4 C06", technique="deterministic simulation: seeded whole-run search over schedule options with bounded liveness delivered through the model seam; history oracle",
   text="Seeded search over whole simulated SMC runs (real SMCSampler loop, stub kernel/proposal/model) across the schedule-option swarm and targets incl. extremely peaked ones; fixed schedules n_steps=1..100 enumerated in the thorough tier; a fifth of the adaptive runs go through SMCSampler.sample directly with beta_tolerance from 1e-10 to 0.4; runs that stop early are continued with a CHANGED schedule; every run is judged on its recorded temperatures (strictly increasing, in (0,1], ends at exactly 1.0 or at the cap, exact n, min_step honoured), on exceptions, and on bounded-step progress. Sampling, not proof.",
   note="Kernel, proposal and model are simulator stubs; schedule code, weights and ESS are the repository's. Liveness is 'progress in every iteration within a step budget', judged from the history."),
 "C07": dict(level="exploration", ref="DESIGN.md section 4 C07", technique="deterministic simulation: history check of every adaptive step against an executable reference model (own ESS/incremental weights/root of the ESS curve)",
   text="For every adaptive iteration of every simulated run the two-sided bisection post-condition is recomputed by the simulator's own model from the population the step was computed on; floor-forced steps are exempted by the model's floor arithmetic and counted.",
   note="Populations are those whole runs reach (incl. peaked targets where the ESS curve crosses the target inside the bracket), not arbitrary vectors. float32 steps whose log-weights exceed float32 resolution are skipped and counted."),
 "C11": dict(level="fault_enumeration", ref="DESIGN.md section 4 C11", technique="deterministic simulation with fault injection: crash at every likelihood/prior call of a seeded run, restart from durable state only through 4 resume routes, twin-run bit-equality against the uninterrupted reference",
   text="Per scenario the crash points (every likelihood call and every prior call of the reference run) are enumerated completely; crash points are grouped by the durable state they leave and each distinct state is resumed through bytes / dict (pickled snapshot) / LIVE dict (the object the callback received or sampler.last_checkpoint_state, after an exception that does not kill the process) / file path / Aspire.resume_from_file in a fresh process with only durable state; the finished run must equal the reference bit for bit (schedule, populations, samples, evidence, every history series). Scenarios are sampled (swarm), crash points within a scenario are exhaustive.",
   note="Stub kernel/proposal/model; emcee_smc excluded (its random source is not user-supplied); faults inside an HDF5 call are not injected."),
 "C12": dict(level="fault_enumeration", ref="DESIGN.md section 4 C12", technique="deterministic simulation with fault injection: storage seam on HDF5 close + crash at every likelihood/prior call; byte-exact file-vs-acknowledged-payload oracle and cadence model",
   text="Fault-free: the file is re-read at every likelihood call and must equal the last acknowledged payload byte for byte; every durable write is observed at the h5py close seam and the write iterations must equal the cadence arithmetic plus the forced final write. Faulted: a crash at every likelihood/prior call; the file must hold exactly the payload acknowledged before that call, with config and flow loadable through Aspire.resume_from_file. Growing and shrinking payloads, including a larger previous run in the same file; a second crash inside every resumed run (also continued with another cadence, with the absolute cadence arithmetic checked); a sample of real SIGKILLs of a child interpreter validates the crash model.",
   note="Crash = exception at a model call (file closed at those instants); torn writes inside h5py are not injected. Cross-process payload comparison is semantic because pickled torch tensors are not byte-stable across processes; the in-process file-vs-acknowledged comparison is byte-exact."),
 "C18": dict(level="fault_enumeration", ref="DESIGN.md section 4 C18", technique="deterministic simulation with fault injection: history check of reference and crash-resumed runs against an executable reference model",
   text="The history of every fault-free run and of every run resumed after an enumerated crash is checked: one entry per iteration in every series, iterations+1 populations with the right temperatures, none repeated, and each recorded ESS / target ESS / ratio equal to the model's recomputation from neighbouring stored populations.",
   note="Stub kernel/proposal/model. One known finding (extra mcmc_acceptance entry from the final enlargement) is listed in known_findings.json."),
}


CHECKS.update({
 "C08": dict(level="exploration", ref="DESIGN.md section 4 C08", technique="deterministic simulation: history check against an executable reference model plus twin runs under one seed (checkpointing, n_final_samples, simulator-replaced resampling draw, crash/resume)",
   text="Every recorded per-iteration ratio and variance is recomputed by the simulator's own model from the stored pre-resampling population and the temperatures actually used; returned evidence and error must be the sum / root-sum. Twin runs that differ only in checkpointing, n_final_samples or the rng.choice answer of one step (the simulator owns the generator) must give bit-identical ratios; crash/resume twins included.",
   note="Stub kernel/proposal/model. Bit equality is demanded between twin runs of one seed; value equality vs the float64 model uses dtype-scaled tolerances."),
 "C10": dict(level="exploration", ref="DESIGN.md section 4 C10", technique="deterministic simulation: recomputation oracle over every population of whole runs (all samplers), proposal-seam pairing check, crash/resume included",
   text="With deterministic model and proposal owned by the simulator, coherence of cached log-densities is decided by recomputation on every population a run returns, records or checkpoints (importance, minipcn MCMC, emcee MCMC, minipcn SMC, emcee SMC; all namespaces/dtypes; before and after crash/resume); the initial population is matched row by row against what the proposal actually drew, with proposals wider than the prior so the draw-reject-concatenate-trim loop runs.",
   note="Stub kernels/proposal/model (blackjax: random-walk stand-in only). float32 tolerance for log_q of drawn rows is sensitivity-aware (one float32 ulp of x)."),
 "C17": dict(level="exploration", ref="DESIGN.md section 4 C17", technique="deterministic simulation: temporal invariant evaluated at call time inside the user's likelihood (model seam), all samplers, pool-mapped calls, crash/resume",
   text="The instrumented likelihood asserts at every call of every simulated process that the sample set carries the log-prior of exactly those points and that each point was passed to the prior earlier in the trace; at process end the reported evaluation counter must equal the sum of batch sizes. Runs cover every sampler, preconditioning, namespace, FakePool-mapped calls and resumed runs.",
   note="Stub kernels/proposal; BlackJAXSMC through a random-walk stand-in (nuts / hmc branches not run; its evaluation counter is not judged)."),
 "C20": dict(level="exploration", ref="DESIGN.md section 4 C20", technique="deterministic simulation: twin runs (same process, fresh interpreter under another PYTHONHASHSEED) with digest equality, recording generator at every supply route, entropy seam for unseeded generators",
   text="Identically seeded runs must be bit-identical in one process and in a fresh interpreter (real zuko and flowjax construction+training, stub proposal; importance, minipcn MCMC, SMC); for each route of supplying a generator the supplied SimGenerator must account for every draw in the trace; changing only its seed must change the result.",
   note="CPU, single-threaded numerics. emcee_smc offers no way to supply a generator and is not judged. One known finding (Emcee.sample ignores its rng argument)."),
})


CHECKS.update({
 "C15": dict(level="exploration", ref="DESIGN.md section 4 C15", technique="deterministic simulation: namespace x dtype swarm over whole runs incl. crash/restore with precision/namespace invariants at the model seam and on every recorded population; twin run with/without xp=; seeded operation sequences (conversions composed with select/concatenate/pickle/dict) against a plain-array reference model",
   text="Every array handed to the user's callables and every population recorded, checkpointed, restored after a crash (bytes and resume_from_file routes; also when a FINISHED run is resumed; also the per-iteration diagnostics; also initial populations assembled from several proposal batches) and returned must have the requested float width and namespace; sample_posterior(xp=T) for all 9 ordered namespace pairs must succeed, keep values/fields/width; real zuko and flowjax proposal outputs must be consumable by importance and SMC sampling in every sample namespace (native and string dtype spellings).",
   note="The table of dtype SPELLINGS accepted by the dtype helpers is exercised only through the spellings runs are configured with (None, string, native object); the direct conversions themselves are explored by the operation machine. CPU only; stub kernels."),
})


CHECKS.update({
 "C05": dict(level="exploration", ref="DESIGN.md section 4 C05", technique="deterministic simulation: invariant at the kernel seam (stub kernel receives aspire's own log_prob_fn) paired with model-seam observations; simulator probes aimed at out-of-prior, zero-prior-hole and NaN-likelihood points; closed-form reference model of the composite with the affine identified from observed start positions",
   text="For every point any kernel evaluates in whole runs (chain points and simulator probes) the returned value is compared with (1-beta) log q(x) + beta (log L(x)+log pi(x)) + log|det dx/dz| where x is what reached the user's model for that very call, q/L/pi are recomputed by the simulator and pre-image and Jacobian come from its own closed-form composite; zero prior must give exactly -inf, NaN tempered values -inf in SMC; in-place mutation of the kernel's array is detected. minipcn SMC, emcee SMC, minipcn MCMC, emcee MCMC x identity/periodic/logit/probit/affine/both x numpy/torch/jax x dtypes.",
   note="Stub kernels; blackjax.py's duplicate of the target is not run. Points where the bounded map saturates in floating point are counted, not judged. torch float64 is judged at 1e-6 (parts of log|J| are built in float32 by the transforms; observation in DESIGN.md section 7)."),
 "C09": dict(level="exploration", ref="DESIGN.md section 4 C09", technique="deterministic simulation: invariant at the RNG seam (the simulator's recording Generator sees the probability vector and decides the indices), adversarial index answers through the public resample on every stored population",
   text="At every rng.choice call of whole runs the probability vector must equal the model's normalised incremental weights of the current stored population for the temperatures actually used (uniform / n_final_samples for the final enlargement), the number of resampling calls must match the iterations, and the kernel must start from rows idx of that population; SMCSamples.resample is additionally driven with adversarial index vectors on every stored population and every field of every output row compared with its source row.",
   note="Stub kernel/proposal/model; all three namespaces; float32 steps whose log-weights exceed float32 resolution are skipped and counted."),
})


CHECKS.update({
 "C16": dict(level="exploration", engine="operation-engine", ref="DESIGN.md section 4 C16", technique="deterministic simulation, operation engine: seeded Hypothesis stateful machine over sample-set operations checked step by step against a plain-array reference model (pickle hop = checkpoint wire format)",
   text="Seeded operation sequences (select by slice/mask/index array/Python list, partition+concatenate, concatenation of sets that differ in optional fields, pickle, to_dict/from_dict flat/nested; results re-enter the pool so operations compose) over all three sample classes x namespaces x dtypes x field subsets, each result compared field by field with a dict-of-numpy-arrays model; Hypothesis shrinks failures and the recorded op list is the replay file. Reference-model half of the technique with an empty fault space (stated).",
   note="Integer indexing is not generated; after concatenate only rows and weights are compared (no more than the statement promises)."),
 "C19": dict(level="fault_enumeration", engine="operation-engine", ref="DESIGN.md section 4 C19", technique="deterministic simulation with fault injection, operation engine: seeded Hypothesis stateful machine over nested context managers with an exception injected at every body position, user-model errors and FakePool.map failures; identity oracle at every exit",
   text="Nestings of enable_pool and auto_checkpoint to depth 4 on a plain or resume_from_file-primed instance, bodies with sampling calls, and an exception (an Exception subclass or a BaseException such as Ctrl-C) at each body position / inside the likelihood / inside pool.map, propagated through every enclosing context like a real with-statement; at each exit the callables must be the identical objects as on entry of that level, defaults equal or absent as on entry, close/join exactly once iff close_pool, exception unchanged. All (context kind x exit path x depth<=4 x primed) combinations are reached in the quick tier.",
   note="FakePool instead of multiprocessing.Pool; pool=None not generated."),
})


CHECKS.update({
 "C13": dict(level="exploration", engine="operation-engine", ref="DESIGN.md section 4 C13", technique="deterministic simulation, operation engine: seeded Hypothesis stateful machine treating one HDF5 file as a key->object store against an in-memory model, restart between save and load; explicit real-flow save/reload cases",
   text="Seeded operation sequences save sample sets (every class x namespace x dtype x field subset x flat/nested), histories with populations, every transform class (option subsets, fitted or not), dictionaries with None/{}/nested/string lists/numpy scalars and arrays, and Aspire configurations + proposals into one file, restart, and reload any key; every reload is compared observationally with the model (values, names, namespace, dtype, fields; same maps and log-Jacobians on probe points; same settings and proposal after resume_from_file). Real zuko and flowjax flows are saved and reloaded (trained/untrained, dtypes, bounded-transform variants) and compared on probe points. An exception during a reload is a violation.",
   note="Fault-free round trips (the statement is about those); container types and transform output width are not compared; FlowPreconditioningTransform.save is NotImplemented upstream and not exercised."),
})


CHECKS.update({
 "C14": dict(level="exploration", engine="operation-engine", ref="DESIGN.md section 4 C14", technique="deterministic simulation with fault injection, operation engine: seeded Hypothesis stateful machine over one checkpoint file and several Aspire processes (fit/refit, sample, nested auto_checkpoint, crash during sample, resume-from-file-then-sample); semantic oracle on the file after every operation",
   text="After every operation of every generated sequence (<= 8 ops, shrunk) the file is audited as it is: the proposal loaded from the file must reproduce the stored log_q of the checkpoint's particles, the stored configuration must name the sampler recorded inside the checkpoint, and at the end resume_from_file + sample_posterior() on a copy must run without mixing population and proposal. Proposals are stub flows fitted to visibly different data so 'which proposal' is unmistakable.",
   note="Stub proposal/kernel/model; one file, two live instances, sequences up to 8 operations; resume_from_file and its first sample_posterior form ONE operation (as in the property's own alphabet); a refit on the rebuilt instance before its next run is generated (directed sequences, eighth round)."),
})


CHECKS.update({
 "C01": dict(level="exploration", ref="DESIGN.md section 4 C01", technique="deterministic simulation: seeded replicate ensembles of whole runs per configuration cell, statistical oracle (6 sigma + stated allowance) against closed-form evidence and posterior moments",
   text="Each cell (target x sampler x preconditioning x proposal tightness x namespace) is run as R seeded replicates of the whole pipeline (fit, sample_posterior) with the stub kernel and the exact-density stub proposal; the replicate mean of Z_hat/Z and the pooled posterior mean/variance (circular moments on periodic dimensions) must match the closed forms within 6 standard errors plus a stated finite-N allowance (zero for the evidence in exact cells: importance sampling and fixed-schedule SMC with a population-independent kernel). Bounds were frozen after a multi-seed calibration on the repaired tree.",
   note="Stub kernels: decided for aspire's side of the kernel contract. Small biases below the allowances are not detectable. One known finding (SMC evidence = Z/A over a leaky proposal) is listed in known_findings.json."),
 "C03": dict(level="exploration", ref="DESIGN.md section 4 C03", technique="deterministic simulation: invariants at the proposal seam on real zuko/flowjax flows incl. restart (save/load), normalisation decided by a seeded importance-sampling ensemble with L == 1 and a closed-form normalised prior",
   text="For real ZukoFlow / FlowJax objects with the repo's FlowTransform (logit/probit/off x affine on/off x float32/float64 x untrained/trained x fitted once/refitted; parameter names not in alphabetical order): log_prob(x) == log_q on every drawn batch, draws inside declared bounds, the flow reloaded from HDF5 reproduces log_prob on the recorded draws, and E[Z_hat] = 1 over seeded replicates of Aspire importance sampling against a normalised lighter-tailed prior (any missing or sign-flipped Jacobian term shifts log Z_hat by O(1)).",
   note="Normalisation errors below a few percent are not detectable by this oracle (a quadrature would be sharper but is pure numerical analysis, outside this family). torch float64 judged at 1e-6 (observation in DESIGN.md section 7)."),
})

NOT_APPLICABLE = [
  {"property_id": "C02", "reason": "pure function of one array triple (weights/evidence/ESS formulas): no schedule, storage, randomness, interruption or second party for a simulator to control; see DESIGN.md section 5"},
  {"property_id": "C04", "reason": "pure mathematical map per transform configuration, quantified over inputs only: nothing a crash, seed or operation order can decide; see DESIGN.md section 5"},
]
PENDING = {}  # property -> reason while a check is still being built

def main():
    extra = json.load(open(os.path.join(ROOT, "tools", "manifest_extra.json"))) if os.path.exists(os.path.join(ROOT, "tools", "manifest_extra.json")) else {}
    checks = []
    for pid in sorted(CHECKS):
        c = CHECKS[pid]
        checks.append({
            "property_id": pid,
            "quick_cmd": cmd(pid, "quick"),
            "thorough_cmd": cmd(pid, "thorough"),
            "evidence_file": f"/verif/evidence/{pid}.json",
            "replay_cmd_template": "cd /verif && /venv/bin/python -m sim.cli replay {path}",
            "engine": c.get("engine", "run-engine"),
            "level_claimed": {"category": c["level"], "text": c["text"] + EXTRA.get(pid, ""), "design_ref": c["ref"]},
            "level_note": c["note"],
            "technique": c["technique"],
        })
    na = list(NOT_APPLICABLE)
    all_ids = [f"C{i:02d}" for i in range(1, 21)]
    for pid in all_ids:
        if pid not in CHECKS and pid not in [n["property_id"] for n in na]:
            na.append({"property_id": pid, "reason": PENDING.get(pid, "not claimed yet: the check for this property is still being built (see DESIGN.md section 4 for the plan)")})
    man = {
        "version": 1,
        "setup_cmd": "cd /verif && /venv/bin/python -m sim.cli setup",
        "hooks": {
            "guard": "ASPIRE_VERIF",
            "enable": "no hook is compiled into /repo: every seam the simulator needs is a public argument, a documented entry point, an optional import or a third-party (numpy/h5py) function patched inside the simulator process only (DESIGN.md 2.5); the guard name is reserved and unused",
            "baseline_off_cmd": "cd /verif && /venv/bin/python tools/baseline_check.py",
            "source_commits": [],
            "add_only": True,
        },
        "engines": [
            {"name": "run-engine", "path": "sim/runner.py, sim/crashloop.py", "serves_properties": [p for p in sorted(CHECKS) if CHECKS[p].get("engine", "run-engine") == "run-engine"],
             "kind_free_text": "one simulated aspire process per run inside a harness that owns model callables, proposal, kernel package, random sources, entropy, pool and checkpoint file; crash at any model-seam call; restart from durable state only"},
            {"name": "operation-engine", "path": "sim/machines/", "serves_properties": [p for p in sorted(CHECKS) if CHECKS[p].get("engine") == "operation-engine"],
             "kind_free_text": "Hypothesis stateful machines whose rules are aspire API calls and simulator faults, each with a reference model"},
        ],
        "checks": checks,
        "not_applicable": na,
        "notes": "Deterministic simulation with fault injection (DESIGN.md). Exit 0 held / 1 VIOLATION / 2-3 harness error. Fixes made to /repo are listed in known_findings.json (status fixed) and DESIGN.md section 7.",
    }
    with open(os.path.join(ROOT, "MANIFEST.json"), "w") as f:
        json.dump(man, f, indent=1)
    print("checks:", [c["property_id"] for c in checks], "n/a:", [n["property_id"] for n in na])

if __name__ == "__main__":
    main()
