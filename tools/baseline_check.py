#!/venv/bin/python
"""Run the repository's pinned test suite (guard off) and compare with
/root/.vp/BASELINE.json: every stable-pass test must still pass."""
import json, os, subprocess, sys, tempfile
import xml.etree.ElementTree as ET

def main():
    base = json.load(open("/root/.vp/BASELINE.json"))
    want = set(base["stable_pass"])
    out = tempfile.mkdtemp(prefix="aspire-baseline-")
    xml = os.path.join(out, "junit.xml")
    env = {k: v for k, v in os.environ.items() if k != "ASPIRE_VERIF"}
    extra = sys.argv[1:]
    repo = "/repo"
    if "--tree" in extra:  # run the suite of another checkout (scratch worktree) against its own sources
        i = extra.index("--tree")
        repo = extra[i + 1]
        del extra[i:i + 2]
        env["PYTHONPATH"] = os.path.join(repo, "src")
    cmd = ["/venv/bin/python", "-m", "pytest", "-ra", "-q", "-p", "no:cacheprovider", "--timeout=900",
           "--continue-on-collection-errors", f"--junitxml={xml}"] + extra
    p = subprocess.run(cmd, cwd=repo, env=env, stdout=subprocess.PIPE, stderr=subprocess.STDOUT, text=True)
    passed = set()
    for tc in ET.parse(xml).getroot().iter("testcase"):
        ok = not any(ch.tag in ("failure", "error", "skipped") for ch in tc)
        if ok:
            passed.add(f"{tc.get('classname')}::{tc.get('name')}")
    missing = sorted(want - passed)
    print(p.stdout[-600:])
    print(f"baseline stable_pass={len(want)} passed_now={len(passed)} missing={len(missing)}")
    for m in missing[:20]:
        print("  MISSING", m)
    import shutil; shutil.rmtree(out, ignore_errors=True)
    return 1 if missing else 0

if __name__ == "__main__":
    sys.exit(main())
