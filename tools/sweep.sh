#!/bin/bash
# usage: tools/sweep.sh <first_seed> <last_seed> [tier] [checks...]
# Runs the named checks (default: all claimed) for a range of VERIF_SEED values and reports every non-zero exit.
cd "$(dirname "$0")/.."
first=$1; last=$2; tier=${3:-quick}; shift 3 2>/dev/null
checks=${@:-C01 C03 C05 C06 C07 C08 C09 C10 C11 C12 C13 C14 C15 C16 C17 C18 C19 C20}
mkdir -p /tmp/aspire-sweep
bad=0
for s in $(seq $first $last); do
  for c in $checks; do
    out=/tmp/aspire-sweep/$c-$s-$tier.log
    VERIF_SEED=$s PYTHONPATH=$PWD timeout 3300 /venv/bin/python -m sim.cli check $c --tier $tier > $out 2>&1
    rc=$?
    line=$(grep "^property=" $out | tail -1)
    echo "seed=$s check=$c rc=$rc $line"
    if [ $rc -ne 0 ]; then bad=$((bad+1)); grep -E "VIOLATION|HARNESS|oracle=" $out | head -6; fi
  done
done
echo "SWEEP DONE non-zero exits: $bad"
