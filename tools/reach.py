#!/venv/bin/python
"""Reach measurement: which lines of /repo/src/aspire do the quick checks execute?

  tools/reach.py run [checks...]   runs the named quick checks (default: all) with VERIF_COVERAGE_DIR set (evidence goes to a
                                   scratch directory, not to /verif/evidence) and combines the per-case data files
  tools/reach.py report            per-file percentage and the uncovered line ranges of function bodies

Only an observation aid for deciding where the swarms are thin: no check depends on it.
"""
import os
import subprocess
import sys

ROOT = os.path.dirname(os.path.dirname(os.path.abspath(__file__)))
D = "/dev/shm/aspire-reach"
ALL = "C01 C03 C05 C06 C07 C08 C09 C10 C11 C12 C13 C14 C15 C16 C17 C18 C19 C20".split()


def run(checks):
    os.makedirs(D, exist_ok=True)
    env = dict(os.environ, VERIF_COVERAGE_DIR=D, VERIF_EVIDENCE_DIR=os.path.join(D, "evidence"), PYTHONHASHSEED="0",
               VERIF_BUDGET_S=os.environ.get("VERIF_BUDGET_S", "150"))
    os.makedirs(env["VERIF_EVIDENCE_DIR"], exist_ok=True)
    for c in checks:
        p = subprocess.run([sys.executable, "-m", "sim.cli", "check", c, "--tier", "quick"], cwd=ROOT, env=env, capture_output=True, text=True)
        print(c, "rc", p.returncode, (p.stdout.strip().splitlines() or [""])[-1][:200], flush=True)
    import coverage

    cov = coverage.Coverage(data_file=os.path.join(D, "cov"), config_file=False)
    cov.combine([D], keep=False)
    cov.save()


def report():
    import coverage

    import aspire

    cov = coverage.Coverage(data_file=os.path.join(D, "cov"), config_file=False)
    cov.load()
    base = os.path.dirname(aspire.__file__)
    for root, _, files in sorted(os.walk(base)):
        for f in sorted(files):
            if not f.endswith(".py"):
                continue
            path = os.path.join(root, f)
            try:
                _, stmts, _, missing, _ = cov.analysis2(path)
            except Exception as e:  # noqa: BLE001
                print(path, "not measured:", e)
                continue
            src = open(path).read().splitlines()
            # module-level statements run at import, before measurement starts: judge function bodies only
            body = [n for n in missing if src[n - 1].startswith((" ", "\t")) and not src[n - 1].lstrip().startswith(("def ", "@", "class ", "async def "))]
            nb = [n for n in stmts if src[n - 1].startswith((" ", "\t")) and not src[n - 1].lstrip().startswith(("def ", "@", "class ", "async def "))]
            ranges, start, prev = [], None, None
            for n in body:
                if start is None:
                    start = prev = n
                elif n <= prev + 3:
                    prev = n
                else:
                    ranges.append((start, prev))
                    start = prev = n
            if start is not None:
                ranges.append((start, prev))
            pct = 100.0 * (1 - len(body) / max(1, len(nb)))
            print(f"{os.path.relpath(path, base):40s} {pct:5.1f}%  body stmts {len(nb):4d}  missed {len(body):4d}  " +
                  " ".join(f"{a}-{b}" if a != b else str(a) for a, b in ranges))


if __name__ == "__main__":
    if sys.argv[1] == "run":
        run(sys.argv[2:] or ALL)
    else:
        report()
