#!/venv/bin/python
"""Confirm and evaluate a seeded change (mutant).

  tools/mutant.py confirm <id> <dir-with-patch.diff+demo.py+meta.json>
      copies the deliverables to /verif/seeded/<id>/, then in a fresh scratch worktree of /repo HEAD: demo passes without the
      patch, fails with it, the package imports, the pinned test suite keeps every stable-pass test; writes confirm.json
  tools/mutant.py detect <id> <check> [<check> ...] [--tier quick|thorough] [--in-repo]
      runs the named checks against the patched sources (default: a scratch worktree through PYTHONPATH; --in-repo: git apply in
      /repo and git checkout afterwards) and records which ones report a VIOLATION in /verif/seeded/<id>/detection.json
"""
import json, os, shutil, subprocess, sys, tempfile

ROOT = "/verif"
SEEDED = os.path.join(ROOT, "seeded")


def sh(cmd, **kw):
    return subprocess.run(cmd, shell=isinstance(cmd, str), stdout=subprocess.PIPE, stderr=subprocess.STDOUT, text=True, **kw)


def worktree(tag):
    d = tempfile.mkdtemp(prefix=f"aspire-mv-{tag}-", dir="/tmp")
    os.rmdir(d)
    r = sh(["git", "-C", "/repo", "worktree", "add", "--detach", d, "HEAD", "-q"])
    assert r.returncode == 0, r.stdout
    return d


def drop(d):
    sh(["git", "-C", "/repo", "worktree", "remove", "--force", d])
    shutil.rmtree(d, ignore_errors=True)


def confirm(mid, src):
    dst = os.path.join(SEEDED, mid)
    os.makedirs(dst, exist_ok=True)
    for f in ("patch.diff", "demo.py", "meta.json"):
        shutil.copy(os.path.join(src, f), os.path.join(dst, f))
    wt = worktree(mid)
    res = {"id": mid, "repo_head": sh("git -C /repo rev-parse --short HEAD").stdout.strip()}
    try:
        env = dict(os.environ, PYTHONPATH=os.path.join(wt, "src"))
        a = sh(["/venv/bin/python", os.path.join(dst, "demo.py")], env=env, cwd=wt, timeout=1800)
        res["demo_without_patch"] = {"rc": a.returncode, "tail": a.stdout[-400:]}
        ap = sh(["git", "-C", wt, "apply", os.path.join(dst, "patch.diff")])
        res["patch_applies"] = ap.returncode == 0
        if ap.returncode != 0:
            res["apply_error"] = ap.stdout[-400:]
        imp = sh(["/venv/bin/python", "-c", "import aspire, aspire.aspire, aspire.samples, aspire.samplers.smc.base, aspire.transforms, aspire.utils; print('import ok')"], env=env, cwd=wt)
        res["imports"] = imp.returncode == 0
        b = sh(["/venv/bin/python", os.path.join(dst, "demo.py")], env=env, cwd=wt, timeout=1800)
        res["demo_with_patch"] = {"rc": b.returncode, "tail": b.stdout[-600:]}
        t = sh(["/venv/bin/python", os.path.join(ROOT, "tools", "baseline_check.py"), "--tree", wt, "-n", "6"], timeout=3600)
        res["test_suite_with_patch"] = {"rc": t.returncode, "tail": t.stdout[-300:]}
        res["confirmed"] = bool(res["demo_without_patch"]["rc"] == 0 and res["patch_applies"] and res["imports"]
                                and res["demo_with_patch"]["rc"] != 0 and t.returncode == 0)
    finally:
        drop(wt)
    json.dump(res, open(os.path.join(dst, "confirm.json"), "w"), indent=1)
    print(json.dumps(res, indent=1))
    return 0 if res.get("confirmed") else 1


def detect(mid, checks, tier, in_repo):
    dst = os.path.join(SEEDED, mid)
    patch = os.path.join(dst, "patch.diff")
    out = {"id": mid, "tier": tier, "mode": "git apply in /repo" if in_repo else "scratch worktree via PYTHONPATH", "results": {}}
    env = dict(os.environ)
    env["VERIF_EVIDENCE_DIR"] = tempfile.mkdtemp(prefix="aspire-mv-evidence-", dir="/tmp")
    wt = None
    if in_repo:
        r = sh(["git", "-C", "/repo", "apply", patch])
        assert r.returncode == 0, r.stdout
    else:
        wt = worktree(mid)
        r = sh(["git", "-C", wt, "apply", patch])
        assert r.returncode == 0, r.stdout
        env["PYTHONPATH"] = os.path.join(wt, "src") + os.pathsep + ROOT
    try:
        for c in checks:
            r = sh(["/venv/bin/python", "-m", "sim.cli", "check", c, "--tier", tier], env=env, cwd=ROOT, timeout=3500)
            lines = [l for l in r.stdout.splitlines() if l.startswith(("VIOLATION", "  oracle=", "KNOWN-FINDING", "HARNESS", "property="))]
            out["results"][c] = {"rc": r.returncode, "detected": r.returncode == 1 and any(l.startswith("VIOLATION") for l in lines),
                                 "lines": [l[:400] for l in lines[:8]]}
            print(mid, c, "rc=", r.returncode, "DETECTED" if out["results"][c]["detected"] else "missed", flush=True)
            for l in lines[:4]:
                print("   ", l[:300])
    finally:
        if in_repo:
            sh(["git", "-C", "/repo", "checkout", "--", "."])
        else:
            drop(wt)
        shutil.rmtree(env["VERIF_EVIDENCE_DIR"], ignore_errors=True)
    p = os.path.join(dst, "detection.json")
    prev = json.load(open(p)) if os.path.exists(p) else {"runs": []}
    prev["runs"].append(out)
    json.dump(prev, open(p, "w"), indent=1)
    return 0


if __name__ == "__main__":
    cmd = sys.argv[1]
    if cmd == "confirm":
        sys.exit(confirm(sys.argv[2], sys.argv[3]))
    if cmd == "detect":
        args = sys.argv[3:]
        tier = "quick"
        if "--tier" in args:
            i = args.index("--tier"); tier = args[i + 1]; del args[i:i + 2]
        in_repo = "--in-repo" in args
        args = [a for a in args if a != "--in-repo"]
        sys.exit(detect(sys.argv[2], args, tier, in_repo))
