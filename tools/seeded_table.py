#!/venv/bin/python
"""Generate the markdown table of DESIGN.md section 10.2 from /verif/seeded/*/{meta,confirm,detection}.json + NOTES.json."""
import glob, json, os
ROOT = "/verif/seeded"
notes = json.load(open(os.path.join(ROOT, "NOTES.json")))
rows = ["| id | property | what the change does | needs to manifest | confirmed (demo +/-, suite green) | caught by (quick tier) | missed by | when it arrived |", "|---|---|---|---|---|---|---|---|"]
for d in sorted(glob.glob(os.path.join(ROOT, "*c[0-9][0-9]")), key=lambda p: (os.path.basename(p)[:-3] or " ", os.path.basename(p))):
    mid = os.path.basename(d)
    meta = json.load(open(os.path.join(d, "meta.json"))) if os.path.exists(os.path.join(d, "meta.json")) else {}
    conf = json.load(open(os.path.join(d, "confirm.json"))) if os.path.exists(os.path.join(d, "confirm.json")) else {}
    det = json.load(open(os.path.join(d, "detection.json"))) if os.path.exists(os.path.join(d, "detection.json")) else {"runs": []}
    caught, missed = {}, set()
    for run in det["runs"]:
        for c, r in run["results"].items():
            if r["detected"]:
                orc = [l.split("oracle=")[1].split(" ")[0] for l in r["lines"] if "oracle=" in l]
                caught[c] = sorted(set(orc))[:3]
            else:
                missed.add(c)
    missed -= set(caught)
    n = notes.get(mid, {})
    def cut(s, k=170):
        s = " ".join(str(s).split())
        return s if len(s) <= k else s[: k - 3] + "..."
    rows.append("| {} | {} | {} | {} | {} | {} | {} | {} |".format(
        mid, "C" + mid[-2:], cut(meta.get("summary", "")), cut(meta.get("needs_to_manifest", "")),
        "yes" if conf.get("confirmed") else ("pending" if not conf else "NO"),
        "; ".join(f"{c} ({', '.join(o)})" for c, o in sorted(caught.items())) or "-", ", ".join(sorted(missed)) or "-",
        ("caught as the checks stood" if n.get("caught_when_it_arrived") else "MISSED, then caught after: " + cut(n.get("note", ""), 260)) if n else ""))
print("\n".join(rows))
